"""C18 - CPX framing and routing preserve packets under any stream fragmentation."""
import ast

from .. import bits as B_
from ..astutil import aug_form, dotted, effective, method_call
from ..cfg import cfg_of, fact_key, norm, walk_own
from ..consteval import Scope, fold_in
from ..flow import straightline_paths, logging_purity_rules
from ..mutate import B, M

PROP = 'C18'
CPX = 'cflib/cpx/__init__.py'
TR = 'cflib/cpx/transports.py'
TCP = 'cflib/crtp/tcpdriver.py'
SER = 'cflib/crtp/serialdriver.py'

EXPLANATION = (
    'Static writer/reader agreement for CPX: R1 header bit layout - byte 0: source bits 5..3, destination bits 2..0, last-packet bit 6; '
    'byte 1: function bits 5..0, version bits 7..6 - is the same in _get_wire_data and _set_wire_data (bit-provenance domain), both as <BB on '
    'bytes 0..1, payload from byte 2; R2 the version test raises before any other field is stored; R3 socket framing: the same length-prefix '
    'format on both sides, prefix value = payload length + 2 header bytes and the reader consumes exactly that many bytes into wireData; R4 '
    'the read loop continues while fewer than `size` bytes were collected and asks for exactly the missing count (never reads into the next '
    'packet, tolerates any fragmentation); R5 the router puts a packet only on the queue keyed by its own function value and receivePacket reads '
    'only the key it was asked for, FIFO queues; R6 CRTP tunnel: uplink data = (header,) + payload bytes on function CRTP to STM32, downlink '
    'CRTPPacket(data[0], data[1:]) from function CRTP; the TCP and serial drivers agree.')
ASSUMPTIONS = ['socket.recv(n) returns at most n bytes', 'queue.Queue is FIFO']
FLOORS = {'R1': 10, 'R2': 2, 'R3': 5, 'R4': 4, 'R5': 6, 'R6': 8}


def check(ctx):
    m = ctx.model
    P = m.cls(CPX, 'CPXPacket')
    gw = P.method('_get_wire_data')
    sw = P.method('_set_wire_data')
    sc = Scope.of(gw)
    wst = {}
    for s in sorted([s for s in walk_own(gw.node) if isinstance(s, (ast.Assign, ast.AugAssign))], key=lambda s: s.lineno):
        wst.setdefault(norm(s.targets[0] if isinstance(s, ast.Assign) else s.target), []).append(s)
    ctx.need('targetsAndFlags' in wst and 'functionAndVersion' in wst, '_get_wire_data: header bytes not found')
    inp = {'self.source.value': 'src', 'self.destination.value': 'dst', 'self.function.value': 'fn', 'self.version': 'ver'}
    wd = {'src': 8, 'dst': 8, 'fn': 8, 'ver': 8}
    # byte 0 as it stands when the header is packed, per value of lastPacket (however many locals carry the pieces)
    sp_ = straightline_paths(gw, with_env=True, skip_calls=True)
    per_flag = {}
    if sp_ is not None:
        for conds_, _r, env_ in sp_:
            cd = dict(conds_)
            if 'targetsAndFlags' in env_ and set(cd) <= {'self.lastPacket'}:
                per_flag.setdefault(cd.get('self.lastPacket'), []).append(B_.evaluate(env_['targetsAndFlags'], sc, inp, wd))
    if set(per_flag) == {True, False} and all(len(v_) == 1 for v_ in per_flag.values()):
        bt, bf = per_flag[True][0], per_flag[False][0]
        for lbl, b_ in (('', bf), ('[last]', bt)):
            ctx.inst('R1', gw, 'w:source-bits-5..3' + lbl, B_.is_input_field(b_, 3, 3, 'src'), 'byte 0 %s' % B_.describe(b_, 8))
            ctx.inst('R1', gw, 'w:destination-bits-2..0' + lbl, B_.is_input_field(b_, 0, 3, 'dst') and all(x == 0 for x in b_[7:]), 'byte 0 %s' % B_.describe(b_, 8))
        ctx.inst('R1', gw, 'w:last-packet-bit-6', bt[6] == 1 and bf[6] == 0, 'last-packet flag is bit 6 of byte 0, set iff lastPacket; bit 6 = %s / %s' % (bt[6], bf[6]))
        b1 = B_.evaluate(wst['functionAndVersion'][0].value, sc, inp, wd)
        ctx.inst('R1', gw, 'w:function-bits-5..0', B_.is_input_field(b1, 0, 6, 'fn'), 'byte 1 %s' % B_.describe(b1, 8))
        ctx.inst('R1', gw, 'w:version-bits-7..6', B_.is_input_field(b1, 6, 2, 'ver') and all(b == 0 for b in b1[8:]), 'byte 1 %s' % B_.describe(b1, 8))
        wire_by_paths = True
    else:
        wire_by_paths = False
    b0 = B_.evaluate(wst['targetsAndFlags'][0].value, sc, inp, wd)
    b1 = B_.evaluate(wst['functionAndVersion'][0].value, sc, inp, wd)
    g = cfg_of(gw)
    if not wire_by_paths:
        ctx.inst('R1', gw, 'w:source-bits-5..3', B_.is_input_field(b0, 3, 3, 'src'), 'byte 0 %s' % B_.describe(b0, 8))
        ctx.inst('R1', gw, 'w:destination-bits-2..0', B_.is_input_field(b0, 0, 3, 'dst') and all(b == 0 for b in b0[6:]), 'byte 0 %s' % B_.describe(b0, 8))
        ctx.inst('R1', gw, 'w:function-bits-5..0', B_.is_input_field(b1, 0, 6, 'fn'), 'byte 1 %s' % B_.describe(b1, 8))
        ctx.inst('R1', gw, 'w:version-bits-7..6', B_.is_input_field(b1, 6, 2, 'ver') and all(b == 0 for b in b1[8:]), 'byte 1 %s' % B_.describe(b1, 8))
        lp = [n for n in g.nodes if n.kind == 'stmt' and aug_form(n.ast) and aug_form(n.ast)[0] == 'targetsAndFlags']
        ok = len(lp) == 1 and aug_form(lp[0].ast)[1] is ast.BitOr and fold_in(gw, aug_form(lp[0].ast)[2]) == 0x40 and fact_key('self.lastPacket', True) in g.fact_keys_at(lp[0])
        ctx.inst('R1', gw, 'w:last-packet-bit-6', ok, 'last-packet flag is bit 6 of byte 0, set iff lastPacket')
    ext = [c for c in walk_own(gw.node) if method_call(c, 'extend')]
    ok = len(ext) == 2 and norm(ext[0].args[0]) == "struct.pack('<BB', targetsAndFlags, functionAndVersion)" and norm(ext[1].args[0]) == 'self.data'
    ctx.inst('R1', gw, 'w:layout', ok, 'wire data = <BB(byte0, byte1) then the payload; found %s' % [norm(c) for c in ext])
    # the bytes that go out are the locals as they stand AT the pack: a flag or-ed in afterwards never reaches the wire
    if ext:
        pkn = g.node_of(ext[0])
        packed = {x.id for x in ast.walk(ext[0].args[0]) if isinstance(x, ast.Name)} if ext[0].args else set()
        after = [n for n in g.nodes if n.kind == 'stmt' and isinstance(n.ast, (ast.Assign, ast.AugAssign)) and
                 any(isinstance(t, ast.Name) and t.id in packed for t in (n.ast.targets if isinstance(n.ast, ast.Assign) else [n.ast.target]))
                 and pkn is not None and g.path_avoiding(pkn, [n]) is not None]
        ctx.inst('R1', gw, 'w:header-final-when-packed', pkn is not None and not after, 'header locals written after they were packed: %s' % [norm(n.ast) for n in after])
    rst = {norm(s.targets[0]): s.value for s in sorted([s for s in walk_own(sw.node) if isinstance(s, ast.Assign)], key=lambda s: s.lineno)}
    d = sw.params[1]
    ctx.inst('R1', sw, 'r:header-bytes', norm(rst.get('[targetsAndFlags, functionAndVersion]')) == "struct.unpack('<BB', %s[0:2])" % d, 'reader takes <BB from data[0:2]')
    rin = {'targetsAndFlags': 'b0', 'functionAndVersion': 'b1'}
    rw = {'b0': 8, 'b1': 8}
    sc2 = Scope.of(sw)

    def inner(v):
        return v.args[0] if isinstance(v, ast.Call) and len(v.args) == 1 else v
    sb = B_.evaluate(inner(rst['self.source']), sc2, rin, rw)
    db = B_.evaluate(inner(rst['self.destination']), sc2, rin, rw)
    fb = B_.evaluate(inner(rst['self.function']), sc2, rin, rw)
    vb = B_.evaluate(rst['self.version'], sc2, rin, rw)
    ctx.inst('R1', sw, 'r:source', B_.is_input_field(sb, 0, 3, 'b0', 3) and all(b == 0 for b in sb[3:]) and norm(rst['self.source'].func) == 'CPXTarget', 'source read as %s' % B_.describe(sb, 8))
    ctx.inst('R1', sw, 'r:destination', B_.is_input_field(db, 0, 3, 'b0', 0) and all(b == 0 for b in db[3:]) and norm(rst['self.destination'].func) == 'CPXTarget', 'destination read as %s' % B_.describe(db, 8))
    ctx.inst('R1', sw, 'r:function', B_.is_input_field(fb, 0, 6, 'b1', 0) and all(b == 0 for b in fb[6:]) and norm(rst['self.function'].func) == 'CPXFunction', 'function read as %s' % B_.describe(fb, 8))
    ctx.inst('R1', sw, 'r:version', B_.is_input_field(vb, 0, 2, 'b1', 6) and all(b == 0 for b in vb[2:]), 'version read as %s' % B_.describe(vb, 8))
    lpn = rst.get('self.lastPacket')
    # `(flags & 0x40) != 0` in any spelling: one fact "<masked> == 0" that is false when the flag is set
    from ..cfg import implied as _implied
    if isinstance(lpn, ast.Call) and norm(lpn.func) == 'bool' and len(lpn.args) == 1 and not lpn.keywords:        # bool(x) is x != 0
        lpn = ast.copy_location(ast.Compare(left=lpn.args[0], ops=[ast.NotEq()], comparators=[ast.Constant(value=0)]), lpn)
    fs = _implied(lpn, True) if lpn is not None else []
    ok = len(fs) == 1 and fs[0].op == '==' and fs[0].pol is False and 0 in (fold_in(sw, fs[0].left), fold_in(sw, fs[0].right))
    if ok:
        lb = B_.evaluate(fs[0].right if fold_in(sw, fs[0].left) == 0 else fs[0].left, sc2, rin, rw)
        ok = lb[6] == ('in', 'b0', 6) and all(b == 0 for i, b in enumerate(lb) if i != 6)
    ctx.inst('R1', sw, 'r:last-packet', ok, 'last-packet read from bit 6 of byte 0')
    ctx.inst('R1', sw, 'r:payload', norm(rst.get('self.data')) == '%s[2:]' % d and norm(rst.get('self.length')) == 'len(self.data)', 'payload = data[2:], length = len(payload)')
    pr = P.consts.get('wireData')
    ctx.inst('R1', (CPX, 'CPXPacket'), 'property', pr is not None and norm(pr) == 'property(_get_wire_data, _set_wire_data)', 'wireData property wires getter/setter')

    # ---- R2 ---------------------------------------------------------------------------
    g2 = cfg_of(sw)
    rz = [n for n in g2.nodes if n.kind == 'raise']
    ok = len(rz) == 1 and fact_key('self.version != self.CPX_VERSION', True) in g2.fact_keys_at(rz[0])
    ctx.inst('R2', sw, 'unsupported-version-raises', ok, 'a version other than CPX_VERSION raises')
    stores = [n for n in g2.nodes if n.kind == 'stmt' and isinstance(n.ast, ast.Assign) and norm(n.ast.targets[0]) in ('self.source', 'self.destination', 'self.function', 'self.data', 'self.length', 'self.lastPacket')]
    ok = bool(rz) and all(fact_key('self.version != self.CPX_VERSION', False) in g2.fact_keys_at(n) for n in stores) and len(stores) == 6
    ctx.inst('R2', sw, 'version-test-first', ok, 'no other field is stored before the version test passed')

    # ---- R3 / R4 ------------------------------------------------------------------------
    S = m.cls(TR, 'SocketTransport')
    wp, rp, rdd = S.method('writePacket'), S.method('readPacket'), S.method('_readData')
    pk = [c for c in walk_own(wp.node) if isinstance(c, ast.Call) and dotted(c.func) == 'struct.pack']
    up = [c for c in walk_own(rp.node) if isinstance(c, ast.Call) and dotted(c.func) == 'struct.unpack']
    ctx.need(len(pk) == 1 and len(up) == 1, 'SocketTransport: length prefix pack/unpack not found')
    wf, rf = fold_in(wp, pk[0].args[0]), fold_in(rp, up[0].args[0])
    import struct
    ctx.inst('R3', wp, 'prefix-format', wf == rf and isinstance(wf, str) and struct.calcsize(wf) == 2, 'length prefix format writer %r reader %r' % (wf, rf))
    # the other end of the socket is the ESP32 on the AI deck, which reads the prefix as a little-endian uint16 (native order of the
    # hosts the library runs on): a pair of big-endian formats agrees with itself and with nothing else
    for f_, fmt_ in ((wp, wf), (rp, rf)):
        ctx.inst('R3', f_, 'prefix-byte-order', isinstance(fmt_, str) and fmt_[:1] not in ('!', '>'), 'length prefix must be little-endian (native / < / =); format %r' % (fmt_,))
    pv = wp.params[1]
    ctx.inst('R3', wp, 'prefix-value', norm(pk[0].args[1]) == '%s.length + 2' % pv, 'prefix = payload length + 2 header bytes; found %s' % norm(pk[0].args[1]))
    body = [norm(s) for s in effective(wp.node.body)]
    ctx.inst('R3', wp, 'frame', body == ["data = bytearray(struct.pack(%r, %s.length + 2))" % (wf, pv), 'data += %s.wireData' % pv, 'self._socket.send(data)'] or
             (len(body) == 3 and body[1] == 'data += %s.wireData' % pv and body[2] in ('self._socket.send(data)', 'self._socket.sendall(data)')), 'frame = prefix + wire data, sent once; body %s' % body)
    rb = [norm(s) for s in effective(rp.node.body) if not isinstance(s, ast.FunctionDef)]
    # the packet may be built by a constructor-like classmethod of CPXPacket (body: cls() / .wireData = argument / return)
    rstm = [s_ for s_ in effective(rp.node.body) if isinstance(s_, ast.Return)]
    if len(rb) == 3 and rb[2].startswith('return CPXPacket.') and len(rstm) == 1 and isinstance(rstm[0].value, ast.Call):
        rc_ = rstm[0].value
        P_ = m.cls(CPX, 'CPXPacket')
        if P_.has(rc_.func.attr) and len(rc_.args) == 1 and not rc_.keywords:
            cm = P_.method(rc_.func.attr)
            cb_ = [norm(s_) for s_ in effective(cm.node.body)]
            if any(isinstance(d_, ast.Name) and d_.id == 'classmethod' for d_ in cm.node.decorator_list) and len(cm.params) == 2 and \
                    cb_ == ['packet = %s()' % cm.params[0], 'packet.wireData = %s' % cm.params[1], 'return packet']:
                rb = rb[:2] + ['packet = CPXPacket()', 'packet.wireData = %s' % norm(rc_.args[0]), 'return packet']
    ctx.inst('R3', rp, 'reader-sequence', rb[:5] == ["size = struct.unpack(%r, self._readData(2))[0]" % rf, 'data = self._readData(size)', 'packet = CPXPacket()', 'packet.wireData = data', 'return packet'],
             'reader: prefix from exactly 2 bytes, then exactly `size` bytes become the wire data; body %s' % rb[:5])
    ctx.inst('R3', rp, 'prefix-read-size', 'self._readData(2)' in rb[0] and struct.calcsize(rf) == 2, 'the prefix read asks for calcsize(prefix) = 2 bytes')
    wl = [w for w in walk_own(rdd.node) if isinstance(w, ast.While)]
    sz = rdd.params[1]
    if len(wl) != 1:
        ctx.inst('R4', rdd, 'loop-until-complete', False, 'reading must loop until `size` bytes were collected (a single recv may return fewer bytes)')
    else:
        from ..cfg import canon_test as _ct
        conj = [_ct(v) for v in wl[0].test.values] if isinstance(wl[0].test, ast.BoolOp) and isinstance(wl[0].test.op, ast.And) else [_ct(wl[0].test)]
        rc = [c for c in walk_own(wl[0]) if method_call(c, 'recv')]
        ex = [c for c in walk_own(wl[0]) if method_call(c, 'extend') and norm(c.func.value) == 'data']
        rets = [norm(s.value) for s in walk_own(rdd.node) if isinstance(s, ast.Return)]
        body = effective(wl[0].body)
        arg = norm(rc[0].args[0]).replace(' ', '') if len(rc) == 1 and rc[0].args else None
        if arg == '%s-len(data)' % sz:
            # scheme A: the missing byte count is recomputed from the buffer
            ok_loop = _ct(ast.parse('len(data) < %s' % sz, mode='eval').body) in conj or _ct(ast.parse('%s - len(data) > 0' % sz, mode='eval').body) in conj
            ok_req = True
            ok_acc = len(ex) == 1 and ex[0].args[0] is rc[0] and rets == ['data'] and len(body) == 1
        elif len(rc) == 1 and isinstance(rc[0].args[0], ast.Name):
            # scheme B: a counter of missing bytes (invariant counter == size - len(data)): starts at size, the loop runs while it is
            # positive, each recv asks for it, the chunk is appended and the counter drops by the length of THAT chunk
            cn = rc[0].args[0].id
            init = [s_ for s_ in rdd.node.body if isinstance(s_, ast.Assign) and norm(s_.targets[0]) == cn]
            ok_loop = _ct(ast.parse('%s > 0' % cn, mode='eval').body) in conj and len(init) == 1 and norm(init[0].value) == sz and init[0].lineno < wl[0].lineno
            ok_req = True
            chunk = None
            for s_ in body:
                if isinstance(s_, ast.Assign) and s_.value is rc[0] and isinstance(s_.targets[0], ast.Name):
                    chunk = s_.targets[0].id
            decs = [aug_form(s_) for s_ in body if aug_form(s_) and aug_form(s_)[0] == cn]
            stores = [s_ for s_ in walk_own(wl[0]) if isinstance(s_, (ast.Assign, ast.AugAssign)) and norm(s_.targets[0] if isinstance(s_, ast.Assign) else s_.target) == cn]
            ok_acc = chunk is not None and len(ex) == 1 and norm(ex[0].args[0]) == chunk and rets == ['data'] and len(decs) == 1 and len(stores) == 1 and \
                decs[0][1] is ast.Sub and norm(decs[0][2]) == 'len(%s)' % chunk
        elif len([c for c in walk_own(wl[0]) if method_call(c, 'recv_into')]) == 1 and not rc:
            # scheme C: recv_into a preallocated buffer: data = bytearray(size); view = memoryview(data); n = 0;
            #           while n < size: n += sock.recv_into(view[n:], size - n) - every chunk is written where the previous one ended
            ri = [c for c in walk_own(wl[0]) if method_call(c, 'recv_into')][0]
            adds = [aug_form(s_) for s_ in body if aug_form(s_) and aug_form(s_)[1] is ast.Add and isinstance(s_, ast.AugAssign) and s_.value is ri]
            cn = adds[0][0] if len(adds) == 1 else None
            st0 = {norm(s_.targets[0]): norm(s_.value) for s_ in rdd.node.body if isinstance(s_, ast.Assign)}
            ok_loop = cn is not None and _ct(ast.parse('%s < %s' % (cn, sz), mode='eval').body) in conj and st0.get(cn) == '0'
            ok_req = cn is not None and len(ri.args) == 2 and norm(ri.args[1]).replace(' ', '') == '%s-%s' % (sz, cn)
            dst = ri.args[0] if ri.args else None
            at_off = isinstance(dst, ast.Subscript) and isinstance(dst.slice, ast.Slice) and dst.slice.lower is not None and norm(dst.slice.lower) == cn and dst.slice.step is None and \
                (dst.slice.upper is None or norm(dst.slice.upper) == sz)
            base = norm(dst.value) if at_off else None
            ok_acc = at_off and cn is not None and len(body) == 1 and rets == ['data'] and st0.get('data') == 'bytearray(%s)' % sz and \
                (base == 'memoryview(data)' or st0.get(base) == 'memoryview(data)')
        else:
            # a read-ahead buffer kept on the transport: bytes beyond the requested size survive the call - and a disconnect, unless
            # connect() / disconnect() empties it.  Bytes of a dead stream must not prefix the next one.
            acc = [norm(c.func.value) for c in walk_own(wl[0]) if method_call(c, 'extend') and norm(c.func.value).startswith('self.')]
            if acc:
                cls_ = rdd.cls
                resets = [f_.qualname for f_ in cls_.methods.values() if f_.name in ('connect', 'disconnect') for s_ in walk_own(f_.node)
                          if (isinstance(s_, ast.Assign) and norm(s_.targets[0]) == acc[0]) or (isinstance(s_, ast.Expr) and method_call(s_.value, 'clear') and norm(s_.value.func.value) == acc[0])]
                ctx.inst('R4', rdd, 'read-buffer-does-not-outlive-the-stream', bool(resets),
                         'received bytes are collected in %s, which no connect() / disconnect() empties: left-overs of a broken stream are parsed as the start of the next' % acc[0])
            ctx.need(False, '_readData: neither the size - len(data) nor the missing-bytes counter scheme')
        ctx.inst('R4', rdd, 'loop-until-complete', ok_loop, 'the loop continues while bytes are missing; test %s' % conj)
        ctx.inst('R4', rdd, 'request-missing-bytes', ok_req, 'each recv asks for exactly the missing bytes; found %s' % [norm(c) for c in rc])
        ctx.inst('R4', rdd, 'accumulate-in-order', ok_acc, 'received chunks are appended in order, the count of missing bytes drops by the length of the chunk just received, and the buffer is returned')

    STc = rdd.cls
    timed = []
    for mth in (STc.methods.values() if STc is not None else []):
        for c in walk_own(mth.node):
            if isinstance(c, ast.Call):
                if method_call(c, 'settimeout') and c.args and norm(c.args[0]) != 'None':
                    timed.append('%s:%d %s' % (mth.name, c.lineno, norm(c)))
                if norm(c.func) in ('socket.create_connection', 'create_connection') and (len(c.args) > 1 or any(k.arg == 'timeout' and norm(k.value) != 'None' for k in c.keywords)):
                    timed.append('%s:%d %s' % (mth.name, c.lineno, norm(c)))
    ctx.inst('R4', rdd, 'stream-socket-blocks', not timed, 'the stream socket has no timeout: a recv() that times out in the middle of a frame discards the bytes already read and the '
             'next read takes payload bytes for a length prefix; timeouts set: %s' % (timed or 'none'))

    # ---- R5 --------------------------------------------------------------------------------
    R = m.cls(CPX, 'CPXRouter')
    run = R.method('run')
    g3 = cfg_of(run)
    puts = g3.find(lambda n: method_call(n, 'put'))
    # the queue is looked up by the packet's own function value: `self._rxQueues[k]` or `self._rxQueues.get(k)`, possibly through a local
    recv = norm(g3.expand_locals(puts[0][0], puts[0][1].func.value, pure_only=False, keep=('packet',))) if len(puts) == 1 else None
    ok = len(puts) == 1 and recv in ('self._rxQueues[packet.function.value]', 'self._rxQueues.get(packet.function.value)') and [norm(a) for a in puts[0][1].args] == ['packet']
    ctx.inst('R5', run, 'route-by-own-function', ok, 'a packet is put on the queue keyed by its own function value; found %s' % [norm(c) for _, c in puts])
    # ... whenever that queue exists: no other condition (a fill level, a rate) decides whether a received packet is queued
    kq = (g3.fact_keys_at(puts[0][0]) - g3.sentinel_keys_at(puts[0][0])) if len(puts) == 1 else set()
    def is_lookup(k):
        # `q is not None` where q is the result of looking the packet's function up with .get()
        if k[1] or not k[0].startswith('None is '):
            return False
        t = k[0][8:]
        if t.isidentifier():
            t = norm(g3.expand_locals(puts[0][0], ast.Name(id=t, ctx=ast.Load()), pure_only=False, keep=('packet',)))
        return t == 'self._rxQueues.get(packet.function.value)'
    extra5 = sorted(k for k in kq if not (k == fact_key('self._connected', True) or (k[1] and k[0].endswith(' in self._rxQueues')) or is_lookup(k)))
    ctx.inst('R5', run, 'every-packet-of-a-known-function-queued', len(puts) == 1 and not extra5, 'a received packet is dropped under %s' % extra5)
    rd_ = [s for s in walk_own(run.node) if isinstance(s, ast.Assign) and norm(s.targets[0]) == 'packet']
    ctx.inst('R5', run, 'one-read-per-iteration', len(rd_) == 1 and norm(rd_[0].value) == 'self._transport.readPacket()', 'one transport read per loop iteration')
    rcv = R.method('receivePacket')
    gets = [c for c in walk_own(rcv.node) if method_call(c, 'get')]
    fp = rcv.params[1]
    ok = len(gets) == 1 and norm(gets[0].func.value) == 'self._rxQueues[%s.value]' % fp
    ctx.inst('R5', rcv, 'receive-own-function', ok, 'receivePacket(function) reads only the queue of that function')
    mk = [s for s in walk_own(rcv.node) if isinstance(s, ast.Assign) and norm(s.targets[0]) == 'self._rxQueues[%s.value]' % fp]
    ctx.inst('R5', rcv, 'fifo-queues', len(mk) == 1 and norm(mk[0].value) == 'queue.Queue()', 'per-function queues are FIFO queue.Queue objects')
    g4 = cfg_of(rcv)
    mkn = g4.nodes_of(mk[0]) if mk else []
    ctx.inst('R5', rcv, 'queue-created-once', bool(mkn) and fact_key('%s.value in self._rxQueues' % fp, False) in g4.fact_keys_at(mkn[0]), 'a queue is created only if none exists for the function')
    def fresh_q(v):
        return isinstance(v, ast.Call) and norm(v.func) in ('queue.Queue', 'Queue') and not v.args
    shared, unknown = [], []
    for f_ in R.methods.values():
        for st_ in walk_own(f_.node):
            if not isinstance(st_, ast.Assign):
                continue
            for t_ in st_.targets:
                v = st_.value
                if norm(t_) == 'self._rxQueues':
                    if (isinstance(v, ast.Dict) and all(fresh_q(x) for x in v.values)) or norm(v) == 'dict()' or (isinstance(v, ast.DictComp) and fresh_q(v.value)):
                        continue
                    if isinstance(v, ast.Call) and norm(v.func) in ('dict.fromkeys', '{}.fromkeys') and len(v.args) == 2 and norm(v.args[1]) != 'None':
                        shared.append('%s:%d %s' % (f_.name, st_.lineno, norm(v)[:70]))
                    else:
                        unknown.append(norm(st_)[:80])
                elif isinstance(t_, ast.Subscript) and norm(t_.value) == 'self._rxQueues' and not fresh_q(v):
                    shared.append('%s:%d %s' % (f_.name, st_.lineno, norm(st_)[:70]))
    ctx.need(not unknown, 'CPXRouter: unrecognised construction of the queue table: %s' % unknown)
    ctx.inst('R5', R.method('__init__'), 'one-queue-object-per-function', not shared,
             'every entry of the per-function table must be its own queue.Queue(); one object stored under several keys hands packets of one function to receivers of another: %s' % (shared or 'none'))
    tr = [t for t in walk_own(run.node) if isinstance(t, ast.Try)]
    ok = len(tr) == 1 and any(puts and puts[0][1] is c for s in tr[0].body for c in walk_own(s)) and not any(isinstance(x, (ast.Break, ast.Return, ast.Raise)) for h in tr[0].handlers for s in h.body for x in walk_own(s))
    ctx.inst('R5', run, 'router-survives-errors', ok, 'a failing read does not end the router loop')

    # ---- R6 --------------------------------------------------------------------------------
    for path, cls in ((TCP, 'TcpDriver'), (SER, 'SerialDriver')):
        D = m.cls(path, cls)
        sp = D.method('send_packet')
        st = {norm(s.targets[0]): norm(s.value) for s in walk_own(sp.node) if isinstance(s, ast.Assign)}
        pkv = sp.params[1]
        # what reaches CPXPacket(data=..), with the locals that assemble it read through: the header byte followed by the payload bytes
        from ..symexec import paths_of as _paths_of
        datas = set()
        for p_ in _paths_of(sp)[0]:
            for e_ in p_.events:
                if e_.kind == 'call' and dotted(e_.node.func) == 'CPXPacket':
                    datas |= {norm(e_.expanded(k_.value)) for k_ in e_.node.keywords if k_.arg == 'data'}
        U = "struct.unpack('B' * len(%s.data), %s.data)" % (pkv, pkv)
        forms = {'(%s.header,) + %s' % (pkv, U), 'tuple([%s.header, *%s])' % (pkv, U), '(%s.header, *%s)' % (pkv, U), 'tuple((%s.header, *%s))' % (pkv, U)}
        ctx.inst('R6', sp, 'uplink-bytes', bool(datas) and datas <= forms, 'uplink bytes = (header,) + payload bytes; found %s' % sorted(datas))
        cs = [c for c in walk_own(sp.node) if isinstance(c, ast.Call) and dotted(c.func) == 'CPXPacket']
        kw = {k.arg: norm(k.value) for k in cs[0].keywords} if cs else {}
        ctx.inst('R6', sp, 'uplink-routing', {k_: v_ for k_, v_ in kw.items() if k_ != 'data'} == {'destination': 'CPXTarget.STM32', 'function': 'CPXFunction.CRTP'} and 'data' in kw, 'CRTP is tunnelled on function CRTP to the STM32; found %s' % kw)
        T = m.cls(path, '_CPXReceiveThread')
        rn = T.method('run')
        rcp = [c for c in walk_own(rn.node) if method_call(c, 'receivePacket')]
        ctx.inst('R6', rn, 'downlink-function', len(rcp) == 1 and norm(rcp[0].args[0]) == 'CPXFunction.CRTP', 'downlink packets are taken from function CRTP')
        mk = [c for c in walk_own(rn.node) if isinstance(c, ast.Call) and dotted(c.func) == 'CRTPPacket']
        dd = [s for s in walk_own(rn.node) if isinstance(s, ast.Assign) and norm(s.targets[0]) == 'data']
        okd = len(mk) == 1 and [norm(a) for a in mk[0].args] == ['data[0]', 'list(data[1:])'] and len(dd) == 1 and \
            norm(dd[0].value) in ("struct.unpack('B' * len(cpxPacket.data), cpxPacket.data)", "struct.unpack('B' * cpxPacket.length, cpxPacket.data)")
        ctx.inst('R6', rn, 'downlink-split', okd, 'downlink: header = byte 0, payload = remaining bytes of the CPX payload')
        pq = [c for c in walk_own(rn.node) if method_call(c, 'put')]
        ctx.inst('R6', rn, 'downlink-queue', len(pq) == 1 and [norm(a) for a in pq[0].args] == ['pk'] and norm(pq[0].func.value) == 'self.in_queue', 'each tunnelled packet is queued once')
        # every non-empty frame is passed on: the only condition besides the thread's own loop is "there is a header byte"
        grn = cfg_of(rn)
        pqn = grn.node_of(pq[0]) if len(pq) == 1 else None
        extra = sorted(k for k in ((grn.fact_keys_at(pqn) - grn.sentinel_keys_at(pqn)) if pqn is not None else ()) if k not in (fact_key('len(data) > 0', True), fact_key('True', True), fact_key('self.sp', False),
                                                                                                   fact_key('data', True), fact_key('len(data) >= 1', True)))
        ctx.inst('R6', rn, 'every-frame-passed-on', pqn is not None and not extra, 'a tunnelled frame is dropped under %s (a full CRTP packet is 1 header + 30 payload bytes)' % extra)

    from .c08 import packet_contract_rules
    packet_contract_rules(ctx, 'R6', size=False)      # the packet object the tunnel fills and hands on: a payload buffer of its own, header decoded for every byte (shared with C08.R4)
    # observers stay observers: a debug line in the receive path must not call something that changes the router (transport() marks
    # the router as disconnected, the routing thread then stops queueing)
    logging_purity_rules(ctx, 'R5', [CPX, TR, TCP, SER])


VARIANTS = [
    M('R1', CPX, "        if self.lastPacket:\n            targetsAndFlags |= 0x40\n\n        functionAndVersion = (self.function.value & 0x3F) | ((self.version & 0x3) << 6)\n        raw.extend(struct.pack('<BB', targetsAndFlags, functionAndVersion))\n", "\n        functionAndVersion = (self.function.value & 0x3F) | ((self.version & 0x3) << 6)\n        raw.extend(struct.pack('<BB', targetsAndFlags, functionAndVersion))\n        if self.lastPacket:\n            targetsAndFlags |= 0x40\n", 'flag or-ed in after the pack'),
    M('R3', TR, "        data = bytearray(struct.pack('H', packet.length+2))", "        data = bytearray(struct.pack('!H', packet.length+2))", 'big-endian prefix on both sides',
      extra=[(TR, "        size = struct.unpack('H', self._readData(2))[0]", "        size = struct.unpack('!H', self._readData(2))[0]")]),
    M('R5', CPX, "        self._rxQueues = {}\n", "        self._rxQueues = dict.fromkeys([f.value for f in CPXFunction], queue.Queue())\n", 'one queue shared by all functions'),
    B(CPX, "        self._rxQueues = {}\n", "        self._rxQueues = {f.value: queue.Queue() for f in CPXFunction}\n", 'queues pre-created, one each'),
    M('R1', CPX, "        targetsAndFlags = ((self.source.value & 0x7) << 3) | (self.destination.value & 0x7)", "        targetsAndFlags = ((self.source.value & 0x7) << 4) | (self.destination.value & 0x7)", 'source shift'),
    M('R1', CPX, "        self.lastPacket = targetsAndFlags & 0x40 != 0", "        self.lastPacket = targetsAndFlags & 0x80 != 0", 'last-packet bit'),
    M('R1', CPX, "        self.function = CPXFunction(functionAndVersion & 0x3F)", "        self.function = CPXFunction(functionAndVersion & 0x1F)", 'function mask'),
    M('R1', CPX, "        self.data = data[2:]", "        self.data = data[1:]", 'payload offset'),
    M('R2', CPX, "        self.version = (functionAndVersion >> 6) & 0x3\n        if self.version != self.CPX_VERSION:", "        self.source = CPXTarget((targetsAndFlags >> 3) & 0x07)\n        self.version = (functionAndVersion >> 6) & 0x3\n        if self.version != self.CPX_VERSION:", 'field stored before version test',
      extra=[(CPX, "        self.source = CPXTarget((targetsAndFlags >> 3) & 0x07)\n        self.destination", "        self.destination")]),
    M('R3', TR, "        data = bytearray(struct.pack('H', packet.length+2))", "        data = bytearray(struct.pack('H', packet.length+1))", 'prefix value'),
    M('R3', TR, "        size = struct.unpack('H', self._readData(2))[0]", "        size = struct.unpack('>H', self._readData(2))[0]", 'prefix byte order'),
    M('R4', TR, "            data.extend(self._socket.recv(size-len(data)))", "            data.extend(self._socket.recv(size))", 'over-read'),
    M('R4', TR, "        while len(data) < size and self._socket is not None:", "        if len(data) < size and self._socket is not None:", 'single recv'),
    M('R5', CPX, "                    self._rxQueues[packet.function.value].put(packet)", "                    self._rxQueues[packet.destination.value].put(packet)", 'queue by destination'),
    M('R5', CPX, "        return self._rxQueues[function.value].get(block=True, timeout=timeout)", "        return self._rxQueues[CPXFunction.CRTP.value].get(block=True, timeout=timeout)", 'receive from fixed queue'),
    M('R6', TCP, "                    pk = CRTPPacket(data[0],\n                                    list(data[1:]))", "                    pk = CRTPPacket(data[1],\n                                    list(data[1:]))", 'downlink header byte'),
    M('R6', SER, "        raw = (pk.header,) + struct.unpack('B' * len(pk.data), pk.data)", "        raw = struct.unpack('B' * len(pk.data), pk.data)", 'uplink header missing'),
    B(TR, "        data = bytearray(struct.pack('H', packet.length+2))", "        data = bytearray(struct.pack('H', packet.length + 2))", 'spacing'),
]
