"""C12 - flashing writes exactly the image, nowhere else."""
import ast
import struct

from ..astutil import aug_form, dotted, method_call
from ..cfg import canon_test, cfg_of, fact_key, norm, walk_own
from ..consteval import Scope, fold_in
from ..flow import unchanged_param
from ..mutate import B, M
from ..symexpr import canon

PROP = 'C12'
BL = 'cflib/bootloader/__init__.py'
CL = 'cflib/bootloader/cloader.py'

EXPLANATION = (
    'Static analysis of Bootloader._internal_flash and Cloader.upload_buffer/write_flash/read_flash (CFG dominators, linear normal forms): '
    'R1 the refusal `len(image) > (flash_pages - start_page) * page_size` -> raise, with the override-aware start page, dominates every buffer '
    'upload and flash write; R2 every write_flash result is the operand of a test whose failing edge raises on all paths, write_flash returns '
    'False when the retry budget is exhausted and otherwise the device status comparison; R3 the retry loops bound a counter that every '
    'iteration decrements exactly once (initial 5, condition retry_counter >= 0: at most 6 attempts); R4 buffer-load packets: header '
    'calcsize(=BBHH)=6 + 25 data bytes <= 31, flushed when count > 24; R5 address/page arithmetic in linear normal form: next packet '
    'address = address + i + 1, page slices [i*ps:(i+1)*ps], page loop range (len-1)/ps + 1, first page of a batch start_page + i - (ctr-1), '
    'final batch start_page + (len-1)/ps - (ctr-1); R6 buffer bookkeeping: ctr starts at 0, +1 per page unconditionally, flush when ctr >= '
    'buffer_pages with page count ctr, reset to 0 only after a successful flush, final flush iff ctr > 0. Byte-exact coverage for all '
    'geometries is arithmetic over runtime values and is decided only through these forms.')
ASSUMPTIONS = ['the bootloader target writes page_count pages starting at target_page from buffer pages 0..page_count-1']
FLOORS = {'R1': 5, 'R2': 7, 'R3': 6, 'R4': 3, 'R5': 7, 'R6': 7}


def check(ctx):
    m = ctx.model
    f = m.func(BL, 'Bootloader._internal_flash')
    g = cfg_of(f)
    sc = Scope.of(f)
    ups = g.find(lambda n: method_call(n, 'upload_buffer'))
    wfs = g.find(lambda n: method_call(n, 'write_flash'))
    ctx.need(len(ups) >= 1 and len(wfs) >= 1, '_internal_flash: expected buffer uploads and flash writes (uploads=%d writes=%d)' % (len(ups), len(wfs)))

    # ---- R1 ---------------------------------------------------------------------------
    sp = sorted([n for n in g.nodes if n.kind == 'stmt' and isinstance(n.ast, ast.Assign) and norm(n.ast.targets[0]) == 'start_page'], key=lambda n: n.line)
    ok = len(sp) == 2 and norm(sp[0].ast.value).endswith('.start_page') and norm(sp[1].ast.value) == 'page_override' and fact_key('page_override is not None', True) in g.fact_keys_at(sp[1])
    ctx.inst('R1', f, 'override-aware-start-page', ok, 'start_page = target start page, replaced by page_override when given')
    # the geometry of a target (start page, flash pages, page size, buffer pages) is what the bootloader reported: it is written when
    # the info reply is parsed (Cloader) and in constructors only.  The flashing code writing it back - "so the summary shows the
    # override" - makes the next image without an override start at the override page
    GEO = ('start_page', 'flash_pages', 'page_size', 'buffer_pages')
    writers = []
    for path_ in (BL, CL, 'cflib/bootloader/boottypes.py'):
        for fn_ in m.mod(path_).all_funcs():
            if fn_.name == '__init__' or (path_ == CL and fn_.name in ('_update_info', 'request_info_update', '_update_mapping')):
                continue
            for x_ in ast.walk(fn_.node):
                if isinstance(x_, ast.Attribute) and isinstance(x_.ctx, (ast.Store, ast.Del)) and x_.attr in GEO:
                    writers.append('%s:%s line %d' % (path_.split('/')[-1], fn_.qualname, x_.lineno))
    ctx.inst('R1', f, 'target-geometry-read-only', not writers, 'target geometry fields are written outside the info parsing: %s' % writers)
    refusal = [n for n in g.nodes if n.kind == 'if' and isinstance(n.ast.test, ast.Compare) and len(n.ast.test.ops) == 1 and
               ('flash_pages' in norm(n.ast.test) or (norm(n.ast.test.left) == 'len(image)' and norm(n.ast.test.comparators[0]).startswith('t_data.')))]
    ctx.need(len(refusal) == 1, '_internal_flash: size test not found')
    # the test, with locals read through, as  lhs - rhs  OP 0 ; two exact spellings of "the image does not fit":
    #   bytes:  len(image) > (flash_pages - start_page) * page_size
    #   pages:  start_page + int((len(image) - 1) / page_size) >= flash_pages      (index of the last page is beyond the flash)
    from ..symexec import subst as _subst
    tst = refusal[0].ast.test
    # the test may be asked the other way round ("it fits" with the refusal on the false branch): read it as the refusal test
    raises_ = [n for n in g.nodes if n.kind == 'raise']
    t_edges = [e for e in refusal[0].succ if e.label and e.label[0] == 'cond' and e.label[2] is True]
    f_edges = [e for e in refusal[0].succ if e.label and e.label[0] == 'cond' and e.label[2] is False]
    # ("it fits" form: the raise sits in the else branch of the test, not in its body)
    fits_form = any(isinstance(x, ast.Raise) for s_ in refusal[0].ast.orelse for x in ast.walk(s_)) and \
        not any(isinstance(x, ast.Raise) for s_ in refusal[0].ast.body for x in ast.walk(s_))
    if fits_form:
        neg = {ast.Gt: ast.LtE, ast.GtE: ast.Lt, ast.Lt: ast.GtE, ast.LtE: ast.Gt}.get(type(tst.ops[0]))
        if neg is not None:
            tst = ast.copy_location(ast.Compare(left=tst.left, ops=[neg()], comparators=tst.comparators), tst)
    if isinstance(tst.ops[0], (ast.Lt, ast.LtE)):           # a < b  =  b > a
        tst = ast.copy_location(ast.Compare(left=tst.comparators[0], ops=[{ast.Lt: ast.Gt, ast.LtE: ast.GtE}[type(tst.ops[0])]()], comparators=[tst.left]), tst)

    def through(e, at=None):
        """e with helper locals (single reaching plain assignment at node `at`) replaced by their values; the loop and state variables stay"""
        env = {}
        for nm in {x.id for x in ast.walk(e) if isinstance(x, ast.Name)}:
            if nm in ('image', 'start_page', 't_data', 'ctr', 'i', 'self'):
                continue
            ds = g.reaching_defs(at if at is not None else refusal[0], nm)
            if len(ds) == 1 and isinstance(ds[0].ast, ast.Assign) and len(ds[0].ast.targets) == 1 and isinstance(ds[0].ast.targets[0], ast.Name):
                env[nm] = ds[0].ast.value
        e = _subst(e, env) if env else e
        # one-line properties of the target description (boottypes.Target) are read through: t_data.<prop> -> its expression on t_data
        import copy as _copy
        TG = m.cls('cflib/bootloader/boottypes.py', 'Target')

        class PR(ast.NodeTransformer):
            def visit_Attribute(self, n):
                self.generic_visit(n)
                if isinstance(n.value, ast.Name) and n.value.id == 't_data' and TG.has(n.attr) and any(norm(d) == 'property' for d in TG.method(n.attr).node.decorator_list):
                    body = [b for b in TG.method(n.attr).node.body if not (isinstance(b, ast.Expr) and isinstance(b.value, ast.Constant))]
                    if len(body) == 1 and isinstance(body[0], ast.Return) and body[0].value is not None:
                        return _subst(_copy.deepcopy(body[0].value), {'self': ast.Name(id='t_data', ctx=ast.Load())})
                return n
        return PR().visit(_copy.deepcopy(e))
    diff = canon(ast.BinOp(left=through(tst.left), op=ast.Sub(), right=through(tst.comparators[0])), sc)
    opn = type(tst.ops[0]).__name__
    want_b = canon(ast.parse('len(image) - (t_data.flash_pages - start_page) * t_data.page_size', mode='eval').body, sc)
    want_p = canon(ast.parse('start_page + int((len(image) - 1) / t_data.page_size) - t_data.flash_pages', mode='eval').body, sc)
    want_p1 = canon(ast.parse('start_page + int((len(image) - 1) / t_data.page_size) - t_data.flash_pages + 1', mode='eval').body, sc)
    okf = (opn == 'Gt' and diff == want_b) or (opn == 'GtE' and diff == want_p) or (opn == 'Gt' and diff == want_p1)
    ctx.inst('R1', f, 'size-test-form', okf, 'space test is `%s` (as difference: %s %s 0); expected len(image) > (flash_pages - start_page) * page_size or the equivalent '
             'page form start_page + last_page >= flash_pages (override-aware start page)' % (norm(tst), diff, opn))
    te = [e for e in refusal[0].succ if e.label and e.label[0] == 'cond' and e.label[2] is (not fits_form)]
    fe = [e for e in refusal[0].succ if e.label and e.label[0] == 'cond' and e.label[2] is fits_form]
    ok = bool(te) and g.path_avoiding(refusal[0], [g.exit] + [n for n, _ in ups + wfs], avoid_edges=fe) is None
    ctx.inst('R1', f, 'too-large-raises', ok, 'an image that does not fit raises on every path, nothing is uploaded or written')
    ok = all(('e', fe[0].id) in g.dom()[('n', n.id)] for n, _ in ups + wfs) and bool(sp) and g.dominates(sp[0], refusal[0]) and all(g.path_avoiding(refusal[0], [x]) is None for x in sp)
    ctx.inst('R1', f, 'size-test-dominates-writes', ok, 'every upload_buffer / write_flash is dominated by the passed size test')

    # ---- R2 ---------------------------------------------------------------------------
    for n, c in wfs:
        ok = n.kind == 'if' and isinstance(n.ast.test, ast.UnaryOp) and isinstance(n.ast.test.op, ast.Not) and n.ast.test.operand is c
        if ok:
            fail = [e for e in n.succ if e.label and e.label[0] == 'cond' and e.label[2] is True]
            okp = g.path_avoiding(n, [g.exit] + [x for x, _ in ups + wfs if x is not n], avoid_edges=[e for e in n.succ if e not in fail]) is None
        else:
            okp = False
        ctx.inst('R2', f, 'write-result-checked@%d' % n.line, ok and okp, 'a failed flash write must abort (raise) on every path; the result may not be dropped', line=n.line)
    ff = m.func(BL, 'Bootloader._flash_flash')
    swallow = []
    for t_ in [t_ for t_ in walk_own(ff.node) if isinstance(t_, ast.Try)]:
        if any(method_call(c_, '_internal_flash') for s_ in t_.body for c_ in walk_own(s_)):
            for h_ in t_.handlers:
                gh_leave = [x for x in walk_own(h_) if isinstance(x, ast.Raise)]
                # the handler must re-raise on every path: its last statement is a raise and no branch of it ends otherwise
                if not (h_.body and isinstance(h_.body[-1], ast.Raise)):
                    swallow.append(h_.lineno)
                del gh_leave
    ctx.inst('R2', ff, 'flash-failure-propagates', not swallow and any(method_call(c_, '_internal_flash') for c_ in walk_own(ff.node)),
             'an exception of _internal_flash (failed flash write) must leave _flash_flash, the remaining artifacts are not written; handlers that can swallow it at lines %s' % (swallow or 'none'))
    fl = m.func(BL, 'Bootloader.flash')
    gfl = cfg_of(fl)
    rb = gfl.find(lambda q: method_call(q, 'reset_to_bootloader'))
    mk = [n for n in gfl.nodes if n.kind == 'stmt' and isinstance(n.ast, ast.Assign) and norm(n.ast.targets[0]) == 'self._cload' and isinstance(n.ast.value, ast.Call) and dotted(n.ast.value.func) == 'Cloader']
    nxt = gfl.find(lambda q: method_call(q, '_flash_flash'))
    ok = len(rb) == 1 and bool(mk) and bool(nxt) and all(gfl.path_avoiding(rb[0][0], [n for n, _ in nxt], avoid=mk) is None for _ in [0])
    ctx.inst('R1', fl, 'fresh-loader-after-bootloader-update', ok,
             'after the nRF51 bootloader / soft device was replaced and the device rebooted, flash() builds a new Cloader before flashing on: the old one keeps the cached '
             'target description (start page of the OLD soft device)')
    wf = m.func(CL, 'Cloader.write_flash')
    gw = cfg_of(wf)
    rets = [n for n in gw.nodes if n.kind == 'return']
    rf = [n for n in rets if fold_in(wf, n.ast.value) is False]
    ok = len(rf) == 1 and fact_key('retry_counter < 0', True) in gw.fact_keys_at(rf[0])
    ctx.inst('R2', wf, 'false-when-budget-exhausted', ok, 'write_flash returns False when no valid reply arrived within the retry budget')
    rs = [n for n in rets if n not in rf]
    ok = len(rs) == 1 and canon_test(rs[0].ast.value) == fact_key('pk.data[2] == 1')[0] and fact_key('retry_counter < 0', False) in gw.fact_keys_at(rs[0])
    ctx.inst('R2', wf, 'status-comparison', ok, 'otherwise the device status byte decides (data[2] == 1)')
    pk = [c for c in walk_own(wf.node) if isinstance(c, ast.Call) and dotted(c.func) == 'struct.pack']
    ok = len(pk) == 1 and [norm(a) for a in pk[0].args] == ["'<BBHHH'", wf.params[1], '24', wf.params[2], wf.params[3], wf.params[4]]
    ctx.inst('R2', wf, 'command-layout', ok, 'flash-write command = <BBHHH (target, 0x18, buffer page, flash page, page count); found %s' % [norm(c) for c in pk])

    snd = gw.find(lambda q: method_call(q, 'send_packet'))
    drains = [n for n in gw.nodes if n.kind == 'while' and any(method_call(c, 'receive_packet') and c.args and fold_in(wf, c.args[0]) == 0 for c in ast.walk(n.ast) if isinstance(c, ast.Call))
              and not any(method_call(c, 'send_packet') for c in ast.walk(n.ast) if isinstance(c, ast.Call))]
    ok = len(snd) == 1 and len(drains) >= 1 and any(gw.dominates(d, snd[0][0]) for d in drains)
    ctx.inst('R2', wf, 'stale-replies-drained-before-command', ok,
             'replies are matched on (target, 0x18) only, so replies still queued from an earlier (re-sent) write must be drained by a non-blocking receive loop before the command is sent; '
             'otherwise a stale positive reply answers a later failed write')

    # ---- R3 ---------------------------------------------------------------------------
    for fn in ('write_flash', 'read_flash'):
        fx = m.func(CL, 'Cloader.' + fn)
        loops = [w for w in walk_own(fx.node) if isinstance(w, ast.While) and 'retry_counter' in norm(w.test)]
        ctx.need(len(loops) == 1, '%s: retry loop not found' % fn)
        w = loops[0]
        conj = [canon_test(v) for v in w.test.values] if isinstance(w.test, ast.BoolOp) and isinstance(w.test.op, ast.And) else [canon_test(w.test)]
        ctx.inst('R3', fx, 'bounded-condition', canon_test(ast.parse('retry_counter >= 0', mode='eval').body) in conj, 'the loop condition must contain the conjunct retry_counter >= 0; condition %s' % conj)
        dec = [s for s in w.body if aug_form(s) and aug_form(s)[0] == 'retry_counter' and aug_form(s)[1] is ast.Sub and fold_in(fx, aug_form(s)[2]) == 1]
        alld = [s for s in walk_own(w) if isinstance(s, (ast.AugAssign, ast.Assign)) and norm(s.targets[0] if isinstance(s, ast.Assign) else s.target) == 'retry_counter']
        esc = [x for x in walk_own(w) if isinstance(x, ast.Continue)]
        ctx.inst('R3', fx, 'decrement-once-per-iteration', len(dec) == 1 and len(alld) == 1 and not esc, 'every iteration decrements the counter exactly once (top level of the body, no continue)')
        init = [s for s in walk_own(fx.node) if isinstance(s, ast.Assign) and norm(s.targets[0]) == 'retry_counter' and not aug_form(s)]
        ctx.inst('R3', fx, 'initial-budget', len(init) == 1 and fold_in(fx, init[0].value) == 5, 'retry budget starts at 5 (at most 6 attempts)')

    # ---- R4 / R5: upload_buffer ---------------------------------------------------------
    ub = m.func(CL, 'Cloader.upload_buffer')
    scu = Scope.of(ub)
    pks = [c for c in walk_own(ub.node) if isinstance(c, ast.Call) and dotted(c.func) == 'struct.pack']
    ctx.need(len(pks) == 2, 'upload_buffer: two header packs expected')
    fmts = {fold_in(ub, c.args[0]) for c in pks}
    lp = [l for l in walk_own(ub.node) if isinstance(l, ast.For)]
    ctx.need(len(lp) == 1, 'upload_buffer: byte loop not found')
    # the flush test: the `if` of the byte loop that sends a packet; the counter is the local it compares with a constant
    fl = [i for i in walk_own(lp[0]) if isinstance(i, ast.If) and any(method_call(c, 'send_packet') for s_ in i.body for c in walk_own(s_))]
    ctx.need(len(fl) == 1, 'upload_buffer: flush test not found')
    thr = fl[0].test
    cvs = [x.id for x in ast.walk(thr) if isinstance(x, ast.Name)]
    ctx.need(len(cvs) == 1, 'upload_buffer: flush test is not a comparison of one counter')
    count = cvs[0]
    cmp_ = thr.operand if isinstance(thr, ast.UnaryOp) and isinstance(thr.op, ast.Not) else thr         # `not count < k` is a comparison too
    ok = len(fmts) == 1 and isinstance(cmp_, ast.Compare) and len(cmp_.ops) == 1
    nbytes = None
    if ok:
        # count > k  /  k < count  /  count >= k ...
        from ..cfg import implied
        fct = implied(thr, True)[0]
        ok = fct.op == '<' and (norm(fct.right) == count or norm(fct.left) == count)
    if ok:
        if norm(fct.right) == count:       # k < count (pol True)  /  not (k < count) is impossible here
            k = fold_in(ub, fct.left)
            nbytes = k + 1 if fct.pol else None
        else:                               # not (count < k)  ==  count >= k
            k = fold_in(ub, fct.right)
            nbytes = k if not fct.pol else None
        ok = nbytes is not None
        hs = struct.calcsize(sorted(fmts)[0])
        ok = hs + nbytes <= 31
    ctx.inst('R4', ub, 'packet-size', ok, 'header %s + %s data bytes must fit 31 bytes' % (sorted(fmts), nbytes))
    ctx.inst('R4', ub, 'data-bytes-per-packet', nbytes == 25, 'a packet is flushed after 25 data bytes; found %s' % nbytes)
    p, a, b = ub.params[2], ub.params[3], ub.params[4]
    first = [norm(x) for x in pks[0].args[1:]]
    ctx.inst('R4', ub, 'header-fields', first == [ub.params[1], '20', p, a] and canon(pks[1].args[2], scu) == '20' and norm(pks[1].args[3]) == p,
             'load-buffer header = (target, 0x14, buffer page, address); found %s' % first)
    tg = lp[0].target
    enum = isinstance(lp[0].iter, ast.Call) and norm(lp[0].iter.func) == 'enumerate' and isinstance(tg, ast.Tuple) and len(tg.elts) == 2
    iv = norm(tg.elts[0]) if enum else norm(tg)
    nxt = canon(pks[1].args[4], scu)
    ctx.inst('R5', ub, 'next-packet-address', nxt == canon(ast.parse('%s + %s + 1' % (a, iv), mode='eval').body, scu), 'address of the next packet is %s, expected %s + %s + 1' % (nxt, a, iv))
    if enum:
        ok = norm(lp[0].iter) in ('enumerate(%s)' % b, 'enumerate(%s, 0)' % b) and any(method_call(c, 'append') and norm(c.args[0]) == norm(tg.elts[1]) for c in walk_own(lp[0]))
    else:
        ok = norm(lp[0].iter) in ('range(0, len(%s))' % b, 'range(len(%s))' % b) and any(method_call(c, 'append') and norm(c.args[0]) == '%s[%s]' % (b, iv) for c in walk_own(lp[0]))
    apps = [c for c in walk_own(lp[0]) if method_call(c, 'append')]
    ok = ok and len(apps) == 1 and any(isinstance(s_, ast.Expr) and s_.value is apps[0] for s_ in lp[0].body)
    ctx.inst('R5', ub, 'every-byte-once-in-order', ok, 'bytes buff[0..len) are appended once each, in order')
    # ... of the buffer the caller handed over: it is not replaced, trimmed or filtered on the way to the loop (bytes that are not
    # uploaded keep whatever the previous page left in the bootloader's buffer)
    gub0 = cfg_of(ub)
    lpn = [n for n in gub0.nodes if n.ast is lp[0]]
    ctx.inst('R5', ub, 'buffer-as-given', bool(lpn) and unchanged_param(gub0, lpn[0], b) and not any(isinstance(x, ast.Name) and x.id == b and isinstance(x.ctx, ast.Store) for x in ast.walk(ub.node)),
             'upload_buffer walks the %s it was given (not a re-bound, stripped or filtered copy)' % b)
    cnt = [s for s in lp[0].body if aug_form(s) and aug_form(s)[0] == count] if lp else []
    rs = [s for s in walk_own(fl[0]) if isinstance(s, ast.Assign) and norm(s.targets[0]) == count and not aug_form(s)]
    ctx.inst('R5', ub, 'count-bookkeeping', len(cnt) == 1 and aug_form(cnt[0])[1] is ast.Add and fold_in(ub, aug_form(cnt[0])[2]) == 1 and len(rs) == 1 and fold_in(ub, rs[0].value) == 0, 'count += 1 per byte, reset to 0 at each flush')
    sends = [c for c in walk_own(ub.node) if method_call(c, 'send_packet')]
    gub = cfg_of(ub)
    fin = gub.node_of(sends[-1]) if sends else None
    on_all = fin is not None and ('n', fin.id) in (gub.dom().get(('n', gub.exit.id)) or ())
    ctx.inst('R5', ub, 'final-flush', len(sends) == 2 and any(isinstance(s, ast.Expr) and s.value is sends[-1] for s in ub.node.body) and on_all,
             'the last (partial) packet is sent after the loop, on every path through upload_buffer (no early exit: a "same data as last time" short cut leaves the '
             'bootloader buffer of a restarted or different board unfilled)')

    # ---- R1: the geometry the size test uses is the asked target's: _update_info takes only an answer that names that target -----
    ui = m.func(CL, 'Cloader._update_info')
    gu = cfg_of(ui)
    tid = ui.params[1]
    def geo_targets(n):
        t0 = n.ast.targets[0]
        return [e_ for e_ in (t0.elts if isinstance(t0, (ast.Tuple, ast.List)) else [t0]) if isinstance(e_, ast.Attribute) and e_.attr in GEO]
    geo_st = [(n, e_) for n in gu.nodes if n.kind == 'stmt' and isinstance(n.ast, ast.Assign) for e_ in geo_targets(n)]
    ctx.need(len(geo_st) >= 3, '_update_info: geometry stores not found')
    want_any = [{fact_key("struct.unpack('<BB', answer.data[0:2]) == (%s, 16)" % tid, True)},
                {fact_key('answer.data[0] == %s' % tid, True), fact_key('answer.data[1] == 16', True)}]
    for n, e_ in geo_st:
        keys = set(gu.fact_keys_at(n))
        ctx.inst('R1', ui, 'geometry-from-the-asked-target:' + e_.attr, any(w <= keys for w in want_any),
                 '%s is stored only from an answer whose first bytes are (%s, 0x10): an answer of another target (or a late one) carries another flash size' %
                 (norm(e_), tid), line=n.ast.lineno)

    # ---- R5: the image that is flashed is the file: every FlashArtifact is built from bytes as they were read (or from a literal) -----
    n_art = 0
    for fn_ in m.mod(BL).all_funcs():
        arts = [c for c in walk_own(fn_.node) if isinstance(c, ast.Call) and dotted(c.func) == 'FlashArtifact' and c.args]
        if not arts:
            continue
        ga = cfg_of(fn_)
        for c in arts:
            nd = ga.node_of(c)
            src = norm(ga.expand_locals(nd, c.args[0], pure_only=False)) if nd is not None else norm(c.args[0])
            e_ = ast.parse(src, mode='eval').body
            # a plain read of the whole file (zf.read(name), open(..).read(), read_binary(..)) or a literal fill pattern
            plain = (isinstance(e_, ast.Call) and (norm(e_.func).endswith('.read') or norm(e_.func).split('.')[-1] == 'read_binary')) or \
                (isinstance(e_, ast.BinOp) and isinstance(e_.op, ast.Mult) and isinstance(e_.left, ast.List))
            n_art += 1
            ctx.inst('R5', fn_, 'image-is-the-file-as-read:%d' % n_art, plain, 'FlashArtifact content = %s: the bytes written must be exactly the bytes of the image file (nothing stripped, '
                     'padded or re-encoded on the way)' % src[:80], line=c.lineno)
    ctx.need(n_art >= 3, 'FlashArtifact constructions not found (%d)' % n_art)

    # ---- R5 / R6: page loop ---------------------------------------------------------------
    loops = [n for n in g.nodes if n.kind == 'for' and any(x is ups[0][0] for x in g.loop_body_nodes(n))]
    ctx.need(len(loops) == 1, '_internal_flash: page loop not found')
    L = loops[0]
    i = norm(L.ast.target)
    it = L.ast.iter
    ok = isinstance(it, ast.Call) and norm(it.func) == 'range'
    if ok:
        args = it.args if len(it.args) == 2 else [ast.Constant(value=0)] + list(it.args)
        ok = fold_in(f, args[0]) == 0 and canon(through(args[1], L), sc) == canon(ast.parse('int((len(image) - 1) / t_data.page_size) + 1', mode='eval').body, sc)
    ctx.inst('R5', f, 'page-count', ok, 'pages 0 .. (len(image)-1)/page_size are visited; range %s' % norm(it))
    for n, c in ups:
        s = c.args[3]
        ok = isinstance(s, ast.Subscript) and isinstance(s.slice, ast.Slice) and norm(s.value) == 'image' and \
            canon(s.slice.lower, sc) == canon(ast.parse('%s * t_data.page_size' % i, mode='eval').body, sc)
        last = fact_key('(%s + 1) * t_data.page_size > len(image)' % i, True) in g.fact_keys_at(n)
        if ok and s.slice.upper is not None and norm(s.slice.upper) == 'len(image)':
            ok = last                                   # image[a:len(image)] is image[a:]
        elif ok and s.slice.upper is not None:
            ok = canon(s.slice.upper, sc) == canon(ast.parse('(%s + 1) * t_data.page_size' % i, mode='eval').body, sc)
        elif ok:
            ok = last
        ctx.inst('R5', f, 'page-slice@%d' % n.line, ok, 'page %s uploads image[%s*ps : (%s+1)*ps] (open ended only for the last, partial page); found %s' % (i, i, i, norm(s)), line=n.line)
        ctx.inst('R6', f, 'upload-into-buffer-ctr@%d' % n.line, [norm(a) for a in c.args[:3]] == ['t_data.addr', 'ctr', '0'], 'page is uploaded into buffer page ctr at offset 0; args %s' % [norm(a) for a in c.args[:3]], line=n.line)
    body = {n.id for n in g.loop_body_nodes(L)}
    in_loop = [(n, c) for n, c in wfs if n.id in body]
    after = [(n, c) for n, c in wfs if n.id not in body]
    ctx.need(len(in_loop) == 1 and len(after) == 1, '_internal_flash: one flash write in the loop and one after it expected')
    tp = canon(through(in_loop[0][1].args[2], in_loop[0][0]), sc)
    want = canon(ast.parse('start_page + %s - (ctr - 1)' % i, mode='eval').body, sc)
    ctx.inst('R5', f, 'batch-first-page', tp == want, 'a full batch is written to page %s, expected %s' % (tp, want))
    tp = canon(through(after[0][1].args[2], after[0][0]), sc)
    want = canon(ast.parse('start_page + int((len(image) - 1) / t_data.page_size) - (ctr - 1)', mode='eval').body, sc)
    ctx.inst('R5', f, 'final-batch-first-page', tp == want, 'the final partial batch is written to page %s, expected %s' % (tp, want))
    for n, c in wfs:
        ctx.inst('R6', f, 'write-count=ctr@%d' % n.line, [norm(a) for a in c.args[:2]] == ['t_data.addr', '0'] and norm(c.args[3]) == 'ctr', 'flash write covers ctr pages from buffer page 0', line=n.line)
    cs = sorted([n for n in g.nodes if n.kind == 'stmt' and isinstance(n.ast, (ast.Assign, ast.AugAssign)) and norm(n.ast.targets[0] if isinstance(n.ast, ast.Assign) else n.ast.target) == 'ctr'], key=lambda n: n.line)
    ctx.need(len(cs) >= 2, '_internal_flash: ctr init / increment expected, found %d stores' % len(cs))
    ctx.inst('R6', f, 'ctr-starts-0', isinstance(cs[0].ast, ast.Assign) and fold_in(f, cs[0].ast.value) == 0 and g.dominates(cs[0], L), 'ctr = 0 before the page loop')
    incs = [n for n in cs if aug_form(n.ast)]
    ok = len(incs) == 1
    if ok:
        inc = incs[0]
        ok = aug_form(inc.ast)[1] is ast.Add and fold_in(f, aug_form(inc.ast)[2]) == 1 and inc.id in body and g.path_avoiding(L, [in_loop[0][0]], avoid=[inc]) is None
    ctx.inst('R6', f, 'ctr-increments-per-page', ok, 'ctr += 1 after each uploaded page, before the flush test')
    ctx.inst('R6', f, 'flush-when-buffers-full', fact_key('ctr >= t_data.buffer_pages', True) in g.fact_keys_at(in_loop[0][0]), 'a batch is written when ctr >= buffer_pages')
    resets = [n for n in cs[1:] if isinstance(n.ast, ast.Assign) and not aug_form(n.ast)]
    okr = len(resets) == 1
    if okr:
        rs = resets[0]
        okr = fold_in(f, rs.ast.value) == 0 and g.dominates(in_loop[0][0], rs) and \
            any(e.label and e.label[0] == 'cond' and e.label[2] is False and e.src is in_loop[0][0] for e in g.dominating_edges(rs))
    ctx.inst('R6', f, 'ctr-reset-after-success', okr, 'ctr returns to 0 after (and only after) a successful flash write of a full batch')
    ctx.inst('R6', f, 'final-flush-iff-pending', fact_key('ctr > 0', True) in g.fact_keys_at(after[0][0]), 'the final flash write happens iff pages are pending (ctr > 0)')


VARIANTS = [
    M('R2', CL, "        pk = self.link.receive_packet(0)\n        while pk is not None:\n            pk = self.link.receive_packet(0)\n\n        retry_counter = 5\n        # print \"Flasing", "        retry_counter = 5\n        # print \"Flasing", 'downlink not drained before a write command'),
    B(CL, "        pk = self.link.receive_packet(0)\n        while pk is not None:\n            pk = self.link.receive_packet(0)\n\n        retry_counter = 5\n        # print \"Flasing", "        while self.link.receive_packet(0) is not None:\n            pass\n\n        retry_counter = 5\n        # print \"Flasing", 'compact drain loop'),
    M('R1', BL, "        if len(image) > ((t_data.flash_pages - start_page) *\n                         t_data.page_size):", "        if len(image) > ((t_data.flash_pages - t_data.start_page) *\n                         t_data.page_size):", 'override ignored in the size test'),
    M('R1', BL, "            raise Exception('Not enough space to flash the image file')\n", "            pass\n", 'too-large image not refused'),
    M('R2', BL, "                if not self._cload.write_flash(t_data.addr, 0,\n                                               start_page + i - (ctr - 1),\n                                               ctr):", "                self._cload.write_flash(t_data.addr, 0, start_page + i - (ctr - 1), ctr)\n                if False:", 'flash-write result ignored'),
    M('R2', CL, "        if retry_counter < 0:\n            self.error_code = -1\n            return False\n\n        self.error_code = pk.data[3]", "        if retry_counter < 0:\n            self.error_code = -1\n\n        self.error_code = pk.data[3]", 'exhausted budget not reported'),
    M('R3', CL, "            pk = self.link.receive_packet(2.5)\n            retry_counter -= 1", "            pk = self.link.receive_packet(2.5)\n            if pk is not None:\n                retry_counter -= 1", 'decrement skipped on silence'),
    M('R4', CL, "            if count > 24:", "            if count > 25:", '26 bytes per packet'),
    M('R5', CL, "                                      i + address + 1)", "                                      i + address)", 'next address off by one'),
    M('R5', BL, "                                               start_page + i - (ctr - 1),", "                                               start_page + i - ctr,", 'batch page off by one'),
    M('R5', BL, "                    image[i * t_data.page_size: (i + 1) * t_data.page_size])", "                    image[i * t_data.page_size: (i + 1) * t_data.page_size - 1])", 'page slice short'),
    M('R5', BL, "        for i in range(0, int((len(image) - 1) / t_data.page_size) + 1):", "        for i in range(0, int(len(image) / t_data.page_size) + 1):", 'extra page at exact multiples'),
    M('R6', BL, "            if ctr >= t_data.buffer_pages:", "            if ctr > t_data.buffer_pages:", 'buffer overrun by one page'),
    M('R6', BL, "                    raise Exception()\n\n                ctr = 0\n", "                    raise Exception()\n\n", 'ctr never reset'),
    M('R6', BL, "        if ctr > 0:\n            if self.progress_cb:", "        if ctr > 1:\n            if self.progress_cb:", 'single pending page not written'),
    B(CL, "                                      i + address + 1)", "                                      address + 1 + i)", 'reordered sum'),
    B(BL, "                                               start_page + i - (ctr - 1),", "                                               start_page + i - ctr + 1,", 'equivalent page form'),
]
