"""C08 - every command packet decodes to the caller's arguments under the firmware layout."""
import ast
import os
import struct
import sys

from .. import bits as B_
from ..astutil import dotted, method_call
from ..cfg import cfg_of, fact_key, implied, norm, walk_own
from ..consteval import UNKNOWN, Scope, fold, fold_in
from ..flow import leaves_for_legal_value
from ..mutate import B, M
from ..symexec import Explorer
from ..symexpr import canon, _fmt
from .c13 import quaternion_rules

sys.path.insert(0, os.path.join(os.path.dirname(os.path.dirname(os.path.dirname(os.path.abspath(__file__)))), 'oracles'))
import firmware_layout as FW   # noqa: E402

PROP = 'C08'
CF = 'cflib/crazyflie/__init__.py'
ST = 'cflib/crtp/crtpstack.py'
MODULES = [FW.CMD, FW.HLC, FW.LOC, FW.EXT, FW.PLT, FW.LPS]

EXPLANATION = (
    'Abstract interpretation (path summaries with forward substitution, no solver) of every sender in commander, '
    'high_level_commander, localization, extpos, platformservice and lpslib.lopoanchor: for each path the packet under '
    'construction (port, channel, struct format, per-field canonical expression over the caller\'s arguments, branch guards incl. '
    'protocol-version and X-mode switches) is compared with the frozen firmware wire-layout table oracles/firmware_layout.py (R1); '
    'every payload folds to <= 30 bytes (R2); the set of senders equals the set of oracle entries (R2b); out-of-range thrust and '
    'base-station ids raise before any packet is built, masks are sums of 1<<id (R3); the header byte places port in bits 7..4, '
    'channel in bits 1..0, constant 1s in bits 3..2 and the reader extracts the same bits; oversize packets are refused before the '
    'send lock is taken (R4); the parting set-point of close_link is the all-zero set-point (R5).')
ASSUMPTIONS = ['the firmware layout table is correct (written from the firmware packed structs; sources not available offline)',
               'struct.pack implements the standard little-endian packed encoding and raises struct.error on overflow']
FLOORS = {'R6': 9, 'R1': 40, 'R2': 30, 'R2b': 1, 'R3': 8, 'R4': 8, 'R5': 1}

PVTXT = FW.PV


# ---------------------------------------------------------------------------
# guard rendering
# ---------------------------------------------------------------------------

def render_fact(f, scope):
    """Friendly canonical rendering of a branch fact; integer semantics for the protocol version."""
    pol = f.pol
    if f.op == '<':
        lt, rt = norm(f.left), norm(f.right)
        lv, rv = fold(f.left, scope), fold(f.right, scope)
        if rt == PVTXT and isinstance(lv, int):          # K < pv
            return 'pv>=%d' % (lv + 1) if pol else 'pv<=%d' % lv
        if lt == PVTXT and isinstance(rv, int):          # pv < K
            return 'pv<=%d' % (rv - 1) if pol else 'pv>=%d' % rv
        if lv is not UNKNOWN and isinstance(lv, (int, float)):
            s = '%s>%s' % (canon(f.right, scope), _fmt(lv) if isinstance(lv, float) else lv)
        elif rv is not UNKNOWN and isinstance(rv, (int, float)):
            s = '%s<%s' % (canon(f.left, scope), _fmt(rv) if isinstance(rv, float) else rv)
        else:
            s = '%s<%s' % (canon(f.left, scope), canon(f.right, scope))
        return s if pol else 'not ' + s
    if f.op in ('==', 'is'):
        a, b = f.left, f.right
        if fold(a, scope) is not UNKNOWN and fold(b, scope) is UNKNOWN:
            a, b = b, a
        sym = '==' if f.op == '==' else ' is '
        bt = canon(b, scope) if fold(b, scope) is UNKNOWN or not isinstance(fold(b, scope), (str, type(None))) else repr(fold(b, scope))
        s = '%s%s%s' % (norm(a) if f.op == '==' and fold(a, scope) is UNKNOWN else canon(a, scope), sym, bt)
        return s if pol else 'not ' + s
    t = f.text
    if t == 'self._x_mode':
        t = 'xmode'
    return t if pol else 'not ' + t


def path_guards(p, scope, func=None):
    out = set()
    params = set(func.params) if func is not None else set()
    for t, pol, orig in p.conds:
        if not isinstance(orig, ast.expr):
            out.add('<exception>')
            continue
        # a test on a plain local that merely names a condition (`flag = yaw is None; if flag:`) is read through the local
        bare = orig.operand if isinstance(orig, ast.UnaryOp) and isinstance(orig.op, ast.Not) else orig
        src = t if isinstance(bare, ast.Name) and isinstance(t, ast.expr) and not isinstance(t, ast.Name) else orig
        # a test on a local that merely carries a parameter (`a = request[0]` with request = (angle, ..)) is a test on the parameter
        if src is orig and params and isinstance(t, ast.expr) and not any(isinstance(n, ast.Call) for n in ast.walk(t)):
            o_names = {n.id for n in ast.walk(orig) if isinstance(n, ast.Name) and not isinstance(n.ctx, ast.Store)}
            t_names = {n.id for n in ast.walk(t) if isinstance(n, ast.Name)}
            mods = {n.value.id for n in ast.walk(orig) if isinstance(n, ast.Attribute) and isinstance(n.value, ast.Name)}
            if (o_names - params - mods) and t_names and t_names <= (params | mods) and ast.dump(t) != ast.dump(orig):
                src = t
        for f in implied(src, pol):
            out.add(render_fact(f, scope))
    return out


def known_under(conds, scope):
    """{canonical text of an atomic branch condition: 'True'/'False'} for the conditions a path has taken"""
    out = {}
    for t, pol, orig in conds:
        if isinstance(t, ast.expr) and not isinstance(t, (ast.BoolOp, ast.Name, ast.Constant)):
            neg = isinstance(t, ast.UnaryOp) and isinstance(t.op, ast.Not)
            out[canon(t.operand if neg else t, scope).strip('()')] = str(pol != neg)
    return out


# ---------------------------------------------------------------------------
# packet summaries
# ---------------------------------------------------------------------------

def resolver_for(model):
    loc = model.cls(FW.LOC, 'Localization')

    def inline(call, func):
        f = call.func
        if not isinstance(f, ast.Attribute):
            return None
        recv = norm(f.value)
        if recv == 'self' and func.cls is not None and func.cls.has(f.attr) and f.attr != 'send_packet':
            return func.cls.method(f.attr)
        if recv in ('self._cf.loc', 'self.crazyflie.loc', 'self._cf.localization') and loc.has(f.attr):
            return loc.method(f.attr)
        return None
    return inline


def data_summary(node, scope):
    """-> (fmt, [field canon]) or None"""
    if isinstance(node, ast.Call) and dotted(node.func) == 'struct.pack' and node.args:
        fmt = fold(node.args[0], scope)
        if not isinstance(fmt, str):
            return None
        args = []
        for a in node.args[1:]:
            if isinstance(a, ast.Starred) and isinstance(a.value, (ast.Tuple, ast.List)) and not any(isinstance(e, ast.Starred) for e in a.value.elts):
                args.extend(a.value.elts)             # *(<display>) spreads its elements
            else:
                args.append(a)
        return fmt, [canon(a, scope) for a in args]
    if isinstance(node, (ast.Tuple, ast.List)):
        return 'bytes', [canon(e, scope) for e in node.elts]
    if isinstance(node, ast.BinOp) and isinstance(node.op, ast.Add):
        a = data_summary(node.left, scope)
        if a is None:
            return None
        b = data_summary(node.right, scope)
        if b is None:
            return a[0] + '+tail', a[1] + ['*' + canon(node.right, scope)]
        return a[0] + '+' + b[0], a[1] + b[1]
    return None


def summarise(model, func):
    """[(guards set, packet tuple or None, outcome)] per path."""
    ex = Explorer(func, inline=resolver_for(model))
    out = []
    scope = Scope.of(func)
    for p in ex.run():
        pk = {}      # var -> {'port','channel','data'}
        sent = []
        for e in p.events:
            if e.kind == 'store':
                tgt = e.node.targets[0]
                if isinstance(tgt, ast.Attribute) and tgt.attr in ('port', 'channel', 'data') and isinstance(tgt.value, ast.Name):
                    pk.setdefault(tgt.value.id, {})[tgt.attr] = (e.node.value, e)
            elif e.kind == 'call':
                c = e.node
                if method_call(c, 'set_header') and isinstance(c.func.value, ast.Name) and len(c.args) == 2:
                    d = pk.setdefault(c.func.value.id, {})
                    d['port'] = (c.args[0], e)
                    d['channel'] = (c.args[1], e)
                elif dotted(c.func) == 'CRTPPacket' and isinstance(e.stmt, ast.Assign) and isinstance(e.stmt.targets[0], ast.Name) and \
                        e.stmt.value is e.orig:
                    pk[e.stmt.targets[0].id] = {}
                elif method_call(c, 'send_packet') and norm(c.func.value) in ('self._cf', 'self.cf', 'self.crazyflie') and c.args and \
                        isinstance(c.args[0], ast.Name):
                    d = pk.get(c.args[0].id)
                    if d is None:
                        sent.append(('?', c))
                        continue

                    def sc(ev):
                        # constants are resolved in the scope of the function where the store was written
                        return scope if ev is None else Scope(ev_mod(ev), ev_cls(ev))
                    port = fold(d['port'][0], d['port'][1].defs.get('__scope__', scope)) if 'port' in d else 0
                    chan = fold(d['channel'][0], d['channel'][1].defs.get('__scope__', scope)) if 'channel' in d else 0
                    ds = data_summary(d['data'][0], d['data'][1].defs.get('__scope__', scope)) if 'data' in d else ('', [])
                    if ds:
                        # a field that repeats a condition the path has already decided has that truth value
                        kn = known_under(e.conds, scope)
                        ds = (ds[0], [kn.get(x.strip('()'), x) for x in ds[1]])
                    sent.append(((port, chan) + (ds if ds else ('?', [norm(d['data'][0])])), c))
        guards = path_guards(p, scope, func)
        # guards that restate what the packet on this path already is (its payload size / type) are decided by the packet itself
        if len(sent) == 1 and sent[0][0] != '?':
            size = fmt_size(sent[0][0][2], sent[0][0][3])
            if size is not None and not sent[0][0][2].endswith('+tail'):
                import re
                decided = {}
                for gd in guards:
                    neg = gd.startswith('not ')
                    core = gd[4:] if neg else gd
                    mt = re.fullmatch(r'len\((\w+)\.data\)\s*==\s*(\d+)|(\d+)\s*==\s*len\((\w+)\.data\)', core.replace(' ', '').replace('==', ' == ').replace(' ', ''))
                    val = None
                    if re.fullmatch(r'\w+\.is_data_size_valid\(\)', core):
                        val = size <= 30
                    elif mt:
                        val = int(mt.group(2) or mt.group(3)) == size
                    elif re.fullmatch(r'isinstance\(\w+\.data,\s*bytearray\)', core):
                        val = True
                    if val is not None:
                        decided[gd] = (val != neg)
                if decided and not all(decided.values()):
                    continue                      # a path that contradicts its own packet is not a path
                guards = guards - set(decided)
        out.append((p, guards, sent))
    return out, ex


def ev_mod(ev):
    return None


def ev_cls(ev):
    return None


def group_variants(summ):
    """group paths by emitted packet; guards = facts common to all paths of the group."""
    groups = {}
    for p, guards, sent in summ:
        if p.outcome[0] == 'raise':
            continue
        key = tuple((s[0][0], s[0][1], s[0][2], tuple(s[0][3])) if s[0] != '?' else ('?',) for s in sent)
        groups.setdefault(key, []).append(guards)
    out = []
    for key, gs in groups.items():
        common = set.intersection(*gs) if gs else set()
        out.append((key, sorted(common)))
    return out


def sender_layout(ctx, f, summ, want, rule='R1', size_rule='R2'):
    """Compare every packet variant a sender produces (port, channel, struct format, field expressions per guard) with the firmware layout
    table.  Shared with C17 (the motion primitives are streamed through Commander.send_hover_setpoint / the high-level commander)."""
    n_variants = 0
    variants = group_variants(summ)
    got_pk = [(k, g) for k, g in variants if k]
    used = set()
    for k, g in got_pk:
        ctx.need(len(k) == 1, '%s transmits %d packets on one path' % (f.qualname, len(k)))
        port, chan, fmt, fields = k[0] if k[0] != ('?',) else (None, None, '?', ())
        cand = [i for i, w in enumerate(want) if (w['guard'] == g or w['guard'] == ['*'])]
        n_variants += 1
        if not cand:
            ctx.inst(rule, f, 'variant:' + ','.join(g), False,
                     'packet sent under guard %s is not in the firmware layout table (known guards: %s)' % (g, [w['guard'] for w in want]))
            continue
        w = want[cand[0]]
        used.add(cand[0])
        gk = ','.join(g) or 'always'
        ctx.inst(rule, f, 'port/channel[%s]' % gk, (port, chan) == (w['port'], w['channel']),
                 'sent on port %s channel %s, firmware expects port %s channel %s (%s)' % (port, chan, w['port'], w['channel'], w['src']))
        ctx.inst(rule, f, 'format[%s]' % gk, fmt == w['fmt'], 'struct format %r, firmware layout %r (%s)' % (fmt, w['fmt'], w['src']))
        ctx.inst(rule, f, 'fields[%s]' % gk, list(fields) == w['fields'],
                 'field expressions %s, firmware expects %s (%s)' % (list(fields), w['fields'], w['src']))
        size = fmt_size(fmt, fields)
        ctx.inst(size_rule, f, 'size[%s]' % gk, size is not None and size <= 30, 'payload is %s bytes (limit 30)' % size)
    for i, w in enumerate(want):
        if i not in used and w.get('port') is not None:
            ctx.inst(rule, f, 'variant-missing:' + ','.join(w['guard']), False,
                     'firmware layout variant under guard %s (%s) is never produced' % (w['guard'], w['src']))
    return n_variants


def sender_layout_for(ctx, keys, rule, size_rule=None):
    """sender_layout for the named senders ('path:Class.func' keys of the firmware layout table)."""
    for key in keys:
        path, qual = key.split(':')
        f = ctx.model.func(path, qual)
        summ, _ = summarise_scoped(ctx.model, f)
        ctx.need(key in FW.LAYOUT, 'no firmware layout entry for %s' % key)
        ctx.touch(f)
        sender_layout(ctx, f, summ, FW.LAYOUT[key], rule, size_rule or rule)


def received_header_rules(ctx, rule="R4"):
    """CRTPPacket.__init__(header, data) is how every driver turns received bytes into a packet: port = bits 7..4, channel = bits
    1..0 and nothing else (bits 3..2 are the link's).  Shared with C07: the dispatcher compares exactly these two fields."""
    m = ctx.model
    pkc = m.cls(ST, 'CRTPPacket')
    init = pkc.method('__init__')
    sts = {norm(s.targets[0]): s.value for s in walk_own(init.node) if isinstance(s, ast.Assign)}
    ctx.need('self._port' in sts and 'self._channel' in sts and 'self.header' in sts, 'CRTPPacket.__init__: port/channel/header stores not found')
    pb = B_.evaluate(sts['self._port'], Scope.of(init), {'header': 'header'})
    cb = B_.evaluate(sts['self._channel'], Scope.of(init), {'header': 'header'})
    ctx.inst(rule, init, 'reader-port', B_.is_input_field(pb, 0, 4, 'header', 4) and all(b == 0 for b in pb[4:]), 'port extracted as %s' % B_.describe(pb, 8))
    ctx.inst(rule, init, 'reader-channel', B_.is_input_field(cb, 0, 2, 'header', 0) and all(b == 0 for b in cb[2:]), 'channel extracted as %s' % B_.describe(cb, 8))
    hh = B_.evaluate(sts['self.header'], Scope.of(init), {'header': 'header'})
    ctx.inst(rule, init, 'reader-header', hh[2] == 1 and hh[3] == 1 and B_.is_input_field(hh, 4, 4, 'header', 4) and B_.is_input_field(hh, 0, 2, 'header', 0),
             'stored header %s' % B_.describe(hh, 8))


def header_writer_rules(ctx, rule='R4'):
    """The header byte the drivers transmit is pk.header: port in bits 7..4, channel in bits 1..0, bits 3..2 set; it is refreshed by
    every way of setting port or channel (property setters, set_header).  Shared with C17: the stop / priority-release commands differ
    from the set-points only in the channel."""
    m = ctx.model
    pkc = m.cls(ST, 'CRTPPacket')
    uh = pkc.method('_update_header')
    st = [s for s in walk_own(uh.node) if isinstance(s, ast.Assign) and norm(s.targets[0]) == 'self.header']
    ctx.need(len(st) == 1, '_update_header: header store not found')
    scope = Scope.of(uh)
    hb = B_.evaluate(st[0].value, scope, {'self._port': 'port', 'self.channel': 'channel', 'self._channel': 'channel'})
    ctx.inst(rule, uh, 'port-bits-7..4', B_.is_input_field(hb, 4, 4, 'port'), 'header bits: %s' % B_.describe(hb, 8))
    ctx.inst(rule, uh, 'channel-bits-1..0', B_.is_input_field(hb, 0, 2, 'channel'), 'header bits: %s' % B_.describe(hb, 8))
    ctx.inst(rule, uh, 'link-bits-3..2', hb[2] == 1 and hb[3] == 1, 'bits 3..2 must be set (legacy bootloader); header bits: %s' % B_.describe(hb, 8))
    ctx.inst(rule, uh, 'one-byte', all(b == 0 for b in hb[8:]), 'header must fit one byte')
    init = pkc.method('__init__')
    received_header_rules(ctx, rule)
    for setter, attr in (('_set_port', 'self._port'), ('_set_channel', 'self._channel')):
        f = pkc.method(setter)
        gst = cfg_of(f)
        stn = [n for n in gst.nodes if n.kind == 'stmt' and isinstance(n.ast, ast.Assign) and norm(n.ast.targets[0]) == attr and norm(n.ast.value) == f.params[1]]
        upn = [n for n, c in gst.find(lambda q: method_call(q, '_update_header'))]
        okc = len(stn) == 1 and len(upn) >= 1 and all(gst.dominates(stn[0], u) for u in upn) and ('n', upn[-1].id) in (gst.dom().get(('n', gst.exit.id)) or ())
        ctx.inst(rule, f, 'setter-updates-header', okc, '%s must store the value and THEN refresh the cached header byte (the drivers transmit pk.header, not get_header())' % setter)
        # every value of the header field is legal: a range check in the setter must not turn one away (port 15 is LINKCTRL)
        legal = range(16) if setter == '_set_port' else range(4)
        bad = leaves_for_legal_value(f, f.params[1], legal)
        ctx.inst(rule, f, 'setter-takes-every-legal-value', not bad, '%s refuses %s (line %s): every port 0..15 / channel 0..3 has a header encoding' %
                 (setter, bad[0][1] if bad else None, bad[0][0].line if bad else None))
    props = {k: norm(v) for k, v in pkc.consts.items()}
    ctx.inst(rule, (ST, 'CRTPPacket'), 'properties', props.get('port') == 'property(_get_port, _set_port)' and
             props.get('channel') == 'property(_get_channel, _set_channel)', 'port/channel properties: %s' % {k: props.get(k) for k in ('port', 'channel')})
    sh = pkc.method('set_header')
    stsh = [norm(s) for s in sh.node.body if isinstance(s, (ast.Assign, ast.Expr)) and not isinstance(getattr(s, 'value', None), ast.Constant)]
    # the header byte is refreshed after BOTH fields are stored: by an explicit _update_header() at the end, or because the last store
    # goes through a property setter (which refreshes, see setter-updates-header) and the other field was stored before it
    fld_st = [t for t in stsh if t in ('self._port = port', 'self.port = port', 'self.channel = channel', 'self._channel = channel')]
    both = len(fld_st) == 2 and {t.split(' = ')[1] for t in fld_st} == {'port', 'channel'}
    refreshed = both and ((stsh and stsh[-1] == 'self._update_header()' and stsh.index(fld_st[-1]) < len(stsh) - 1) or fld_st[-1] in ('self.port = port', 'self.channel = channel') and stsh[-1] == fld_st[-1])
    ctx.inst(rule, sh, 'set_header', both and refreshed, 'set_header(port, channel) must store both and refresh the header after the second store; body %s' % stsh)


def packet_contract_rules(ctx, rule='R4', size=True):
    """What every user of CRTPPacket takes for granted (the packet class is a dependency of every protocol module; shared with C01,
    C05, C07, C10, C18): the fields of a received header are decoded the same way for all 256 header bytes; the payload of a new packet
    is a buffer of its own; payload elements are stored as given (a value that is not a byte raises, it is not masked); the size test
    looks at the payload as it is now (callers append to pk.data in place); a packet is never false."""
    m = ctx.model
    pkc = m.cls(ST, 'CRTPPacket')
    init = pkc.method('__init__')
    # 1. header decoding is unconditional: one store each, directly in the body of __init__
    def stored(stmts):
        out = []
        for s_ in stmts:
            if isinstance(s_, ast.Assign):
                for t_ in s_.targets:
                    out += [norm(e_) for e_ in t_.elts] if isinstance(t_, (ast.Tuple, ast.List)) else [norm(t_)]      # (a, b = .. stores a and b)
        return out
    top = stored(init.node.body)
    every = stored(walk_own(init.node))
    for fld in ('self._port', 'self._channel', 'self.header'):
        ctx.inst(rule, init, 'decoded-for-every-header:' + fld.split('.')[-1], top.count(fld) == 1 and every.count(fld) == 1,
                 '%s is stored once, unconditionally (a special case for one header byte changes which callbacks match it); stores: %d, unconditional: %d' %
                 (fld, every.count(fld), top.count(fld)))

    # 2. the payload buffer of a packet is its own object, wherever it is (re)bound
    def fresh(v):
        return isinstance(v, ast.Call) and norm(v.func) in ('bytearray', 'bytes', 'list', 'tuple') or isinstance(v, (ast.List, ast.Tuple))
    setter = pkc.method('_set_data')
    dpar = setter.params[1]
    for f in pkc.methods.values():
        k_ = 0
        for s_ in walk_own(f.node):
            if isinstance(s_, ast.Assign) and any(norm(t) == 'self._data' for t in s_.targets):
                handed = f is setter and norm(s_.value) == dpar          # the caller's own bytearray, handed over on purpose
                ctx.inst(rule, f, 'payload-buffer-is-its-own:%d' % k_, fresh(s_.value) or handed,
                         'self._data = %s: a packet must not share its payload buffer with other packets (class-level or module-level default)' % norm(s_.value), line=s_.lineno)
                k_ += 1
    shared = [norm(s_.targets[0]) for s_ in pkc.node.body if isinstance(s_, ast.Assign) and isinstance(s_.value, (ast.Call, ast.List, ast.Dict)) and
              norm(s_.value.func if isinstance(s_.value, ast.Call) else s_.value) in ('bytearray', 'list', 'dict', '[]', '{}')]
    ctx.inst(rule, (ST, 'CRTPPacket'), 'no-mutable-class-default', not shared, 'mutable class-level defaults of CRTPPacket: %s' % shared)
    # 3. payload elements are taken as they are: bytearray(x) raises for a value outside 0..255, nothing is masked or clipped on the way
    for s_ in walk_own(setter.node):
        if isinstance(s_, ast.Assign) and norm(s_.targets[0]) == 'self._data' and isinstance(s_.value, ast.Call) and norm(s_.value.func) == 'bytearray':
            a0 = s_.value.args[0] if s_.value.args else None
            plain = a0 is not None and len(s_.value.args) == 1 and (norm(a0) == dpar or norm(a0) == "%s.encode('ISO-8859-1')" % dpar)
            ctx.inst(rule, setter, 'payload-stored-as-given:%s' % norm(a0)[:30], plain,
                     'bytearray(%s): the elements must reach bytearray() unchanged, so that a value that is not a byte raises instead of being sent wrapped' % norm(a0), line=s_.lineno)
    # 4. a packet is a packet, also without payload: no __len__ / __bool__ that makes `if pk:` depend on its content
    falsy = [n_ for n_ in ('__len__', '__bool__') if pkc.has(n_)]
    ctx.inst(rule, (ST, 'CRTPPacket'), 'packet-is-never-false', not falsy, 'CRTPPacket defines %s: the drivers test `if packet:` for "is there a packet" - one without payload would be dropped' % falsy)
    if size:
        packet_size_rules(ctx, rule)


def packet_size_rules(ctx, rule='R4'):
    """is_data_size_valid() looks at the payload as it is at the time of the call (callers build packets with pk.data.append / +=)."""
    m = ctx.model
    pkc = m.cls(ST, 'CRTPPacket')
    init = pkc.method('__init__')
    chain = {
        'is_data_size_valid': 'self.available_data_size() >= 0',
        'available_data_size': 'self.MAX_DATA_SIZE - self.get_data_size()',
        'get_data_size': 'len(self._data)',
    }
    for fn, want in chain.items():
        f = pkc.method(fn)
        rets = [norm(s.value) for s in walk_own(f.node) if isinstance(s, ast.Return) and s.value is not None]
        ctx.inst(rule, f, 'size-chain', rets == [want], '%s returns %s, expected %s' % (fn, rets, want))
    ctx.inst(rule, (ST, 'CRTPPacket'), 'max-size', fold_in(init, pkc.consts['MAX_DATA_SIZE']) == 30, 'MAX_DATA_SIZE must be 30')


def check(ctx):
    m = ctx.model
    oracle = FW.LAYOUT
    found_senders = set()
    n_variants = 0
    # one command = one packet: no sender hands its packet to the link from inside a loop (a retry after an exception repeats a command
    # the link may already have accepted - a relative go-to is then flown twice)
    for path in MODULES:
        for f in m.mod(path).all_funcs():
            sp_calls = [c for c in walk_own(f.node) if method_call(c, 'send_packet')]
            if not sp_calls:
                continue
            gfn = cfg_of(f)
            looped = []
            for ln in [x for x in gfn.nodes if x.kind in ('for', 'while')]:
                body_ids = {b.id for b in gfn.loop_body_nodes(ln)}
                looped += [c for c in sp_calls if (gfn.node_of(c) is not None and gfn.node_of(c).id in body_ids)]
            ctx.inst('R2b', f, 'one-transmission-per-call', not looped, '%s transmits from inside a loop at line %s' % (f.qualname, sorted({c.lineno for c in looped})))
    for path in MODULES:
        mod = m.mod(path)
        for f in mod.all_funcs():
            if f.cls is None:
                continue
            try:
                summ, ex = summarise_scoped(m, f)
            except RecursionError:
                ctx.need(False, '%s: summary recursion' % f.qualname)
            emits = any(sent for _, _, sent in summ)
            key = '%s:%s' % (path, f.qualname)
            if not emits:
                if key in oracle:
                    ctx.inst('R2b', f, 'sender-emits', False, 'oracle lists %s as a sender but no path transmits a packet' % f.qualname)
                continue
            if f.name in ('_send_packet',):
                continue        # plumbing, summarised through its callers
            if key not in oracle and not any(method_call(c, 'send_packet') for c in walk_own(f.node)):
                callees = {'%s:%s.%s' % (path, f.cls.qualname, c.func.attr) for c in walk_own(f.node)
                           if isinstance(c, ast.Call) and isinstance(c.func, ast.Attribute) and norm(c.func.value) == 'self'}
                if callees & set(oracle):
                    continue    # delegates to a sender of the same class that has its own entry
            found_senders.add(key)
            ctx.touch(f)
            if key not in oracle:
                continue
            n_variants += sender_layout(ctx, f, summ, oracle[key])
    # ---- R2b: sender inventory -----------------------------------------------
    missing = sorted(set(oracle) - found_senders)
    extra = sorted(found_senders - set(oracle))
    # a sender that moved (helper inlined into its caller, method renamed): a function of the same module without a layout entry whose
    # packets are exactly those of a layout entry that lost its function takes that entry over
    from ..report import Ctx as _Ctx
    for e_ in list(extra):
        pth, qual = e_.split(':')
        f_ = m.func(pth, qual)
        summ_, _ = summarise_scoped(m, f_)
        for mk in list(missing):
            if mk.split(':')[0] != pth:
                continue
            probe = _Ctx(ctx.prop, m)
            try:
                sender_layout(probe, f_, summ_, oracle[mk])
            except Exception:
                continue
            if probe.instances and not probe.violations():
                sender_layout(ctx, f_, summ_, oracle[mk])
                ctx.note('%s sends the packets of the layout entry %s (sender moved)' % (e_, mk))
                extra.remove(e_)
                missing.remove(mk)
                break
    ctx.need(not extra, 'senders without a firmware layout entry (extend oracles/firmware_layout.py): %s' % extra)
    ctx.inst('R2b', MODULES[0], 'inventory', not missing, 'oracle entries without a sender in the code: %s' % missing)

    # ---- R1 (negotiated protocol version): the version every layout switch reads is negotiated anew for every connection -----
    PSV = m.cls(FW.PLT, 'PlatformService')
    fpi = PSV.method('fetch_platform_informations')
    gp = cfg_of(fpi)
    rst = [n for n in gp.nodes if n.kind == 'stmt' and isinstance(n.ast, ast.Assign) and norm(n.ast.targets[0]) in ('self._protocolVersion', 'self._protocol_version')]
    req = gp.find(lambda q: method_call(q, '_request_protocol_version') or method_call(q, 'send_packet'))
    ok = len(rst) == 1 and isinstance(fold_in(fpi, rst[0].ast.value), int) and fold_in(fpi, rst[0].ast.value) < 0 and not gp.fact_keys_at(rst[0]) and \
        ('n', rst[0].id) in (gp.dom().get(('n', gp.exit.id)) or ()) and bool(req) and all(gp.dominates(rst[0], n) for n, _ in req)
    ctx.inst('R1', fpi, 'version-negotiated-per-connection', ok,
             'fetch_platform_informations forgets the protocol version (sets it negative) on every path before asking the device again: the next device may be on '
             'the other side of a legacy/current layout switch')

    # ---- R3: refusals -------------------------------------------------------------
    ss = m.func(FW.CMD, 'Commander.send_setpoint')
    g = cfg_of(ss)
    packs = g.find(lambda n: isinstance(n, ast.Call) and dotted(n.func) in ('struct.pack', 'CRTPPacket'))
    ctx.need(packs, 'send_setpoint: no packet construction')
    for n, c in packs:
        keys = g.fact_keys_at(n)
        ok = fact_key('thrust > 65535', False) in keys and fact_key('thrust < 0', False) in keys
        ctx.inst('R3', ss, 'thrust-range-before:' + norm(c.func), ok, 'packet construction must follow the 0..0xFFFF thrust check; guards %s' % sorted(keys))
    for n in [n for n in g.nodes if n.kind == 'raise']:
        atoms = set()
        for f in g.facts_at(n):
            if isinstance(f.node, ast.BoolOp) and isinstance(f.node.op, ast.Or) and not f.pol:       # a disjunction that holds (kept in de Morgan form: negated conjunction)
                for v in f.node.values:
                    atoms |= {render_fact(x, Scope.of(ss)) for x in implied(v, True)}
            else:
                atoms.add(render_fact(f, Scope.of(ss)))
        ctx.inst('R3', ss, 'raise-only-out-of-range', atoms == {'thrust>65535', 'thrust<0'} or atoms <= {'thrust>65535', 'thrust<0', 'not thrust>65535'} and bool(atoms),
                 'send_setpoint raises under %s' % sorted(atoms))
    tn = [fold_in(ss, c.left if not isinstance(c.left, ast.Name) else c.comparators[0]) for c in walk_own(ss.node)
          if isinstance(c, ast.Compare) and 'thrust' in norm(c)]
    ctx.inst('R3', ss, 'thrust-bounds', sorted(x for x in tn if isinstance(x, int)) == [0, 0xFFFF], 'thrust bounds are %s, expected 0 and 65535' % tn)
    lh = m.func(FW.LOC, 'Localization.send_lh_persist_data_packet')
    g = cfg_of(lh)
    pk_nodes = g.find(lambda n: isinstance(n, ast.Call) and dotted(n.func) in ('struct.pack', 'CRTPPacket'))
    lists = lh.params[1:3]
    mx = [s for s in walk_own(lh.node) if isinstance(s, ast.Assign) and norm(s.targets[0]) == 'max_bs_nr']
    # ... named by a local, or written where it is compared: every `<list>[-1] > N` test folds to 15
    tops = [fold_in(lh, c_.comparators[0]) for c_ in ast.walk(lh.node) if isinstance(c_, ast.Compare) and len(c_.ops) == 1 and isinstance(c_.ops[0], ast.Gt) and
            norm(c_.left).endswith('[-1]') and norm(c_.left)[:-4] in lists]
    tops = [(fold_in(lh, mx[0].value) if (not isinstance(t_, int) and len(mx) == 1) else t_) for t_ in tops]
    ctx.inst('R3', lh, 'max-id', (len(mx) == 1 and fold_in(lh, mx[0].value) == 15 and not [t_ for t_ in tops if t_ != 15]) or (not mx and len(tops) == 2 and set(tops) == {15}),
             'highest base-station id must be 15 (16-bit masks); bounds compared: %s' % tops)
    for lst in lists:
        srt = g.find(lambda n: method_call(n, 'sort') and norm(n.func.value) == lst)
        raises = [n for n in g.nodes if n.kind == 'raise' and lst in ' '.join(k[0] for k in g.fact_keys_at(n))]
        ok = bool(srt) and bool(raises)
        if ok:
            keys = {render_fact(f, Scope.of(lh)) for f in g.facts_at(raises[0])}
            ok = '%s[0]<0 or %s[-1]>max_bs_nr' % (lst, lst) in {k.replace(' ', '').replace('or', ' or ') for k in keys} or \
                any(('%s[0]' % lst) in k and ('%s[-1]' % lst) in k for k in keys)
            ok = ok and all(g.dominates(srt[0][0], r) for r in raises) and all(g.path_avoiding(r, [p[0] for p in pk_nodes]) is None for r in raises)
        ctx.inst('R3', lh, 'id-range:' + lst, ok, 'ids of %s outside 0..15 must raise (on the sorted list) before a packet is built' % lst)
        # mask = sum of 1 << id
        accs = [s for s in walk_own(lh.node) if isinstance(s, ast.AugAssign) and isinstance(s.op, (ast.Add, ast.BitOr)) and
                isinstance(s.value, ast.BinOp) and isinstance(s.value.op, ast.LShift) and fold_in(lh, s.value.left) == 1]
        loops = [l for l in walk_own(lh.node) if isinstance(l, ast.For) and norm(l.iter) == lst]
        okm = len(loops) == 1 and any(a in list(walk_own(loops[0])) and norm(a.value.right) == norm(loops[0].target) for a in accs)
        inits = [s for s in walk_own(lh.node) if isinstance(s, ast.Assign) and any(a for a in accs if norm(a.target) == norm(s.targets[0])) and
                 fold_in(lh, s.value) == 0]
        ctx.inst('R3', lh, 'mask:' + lst, okm and len(inits) >= 2, 'mask for %s must be the sum of 1 << id over the list, starting at 0' % lst)
    # every path building the packet passed the range checks for non-empty lists
    for n, c in pk_nodes[:1]:
        ok = all(g.path_avoiding(r, [n]) is None for r in [x for x in g.nodes if x.kind == 'raise'])
        ctx.inst('R3', lh, 'raise-before-build', ok, 'no packet may be built after a refusal')

    # ---- R4: header byte --------------------------------------------------------------
    header_writer_rules(ctx, 'R4')
    pkc = m.cls(ST, 'CRTPPacket')
    init = pkc.method('__init__')
    # size check chain
    spf = m.func(CF, 'Crazyflie.send_packet')
    g = cfg_of(spf)
    from .c02 import link_names
    tx = g.find(lambda n: method_call(n, 'send_packet') and norm(n.func.value) in link_names(spf))
    ctx.need(tx, 'Crazyflie.send_packet: no transmission through self.link')
    ok = all(fact_key('pk.is_data_size_valid()', True) in g.fact_keys_at(n) for n, _ in tx)
    rs = [n for n in g.nodes if n.kind == 'raise' and fact_key('pk.is_data_size_valid()', False) in g.fact_keys_at(n)]
    ctx.inst('R4', spf, 'size-check-before-lock', ok and len(rs) == 1, 'oversize packets must be refused (raise) and never reach the driver')
    packet_contract_rules(ctx, 'R4')

    # ---- R6: orientation codec used by the full-state set-point (shared rule, see C13.R3) ------
    quaternion_rules(ctx, 'R6')

    # ---- R5: parting set-point ----------------------------------------------------------
    cl = m.func(CF, 'Crazyflie.close_link')
    cs = [c for c in walk_own(cl.node) if method_call(c, 'send_setpoint')]
    def _spread(args_):
        out_ = []
        for a_ in args_:
            v_ = fold_in(cl, a_.value) if isinstance(a_, ast.Starred) else None
            out_ += list(v_) if isinstance(v_, (tuple, list)) else [fold_in(cl, a_)]
        return out_
    ok = len(cs) == 1 and _spread(cs[0].args) == [0, 0, 0, 0] and norm(cs[0].func.value) == 'self.commander'
    ctx.inst('R5', cl, 'parting-setpoint', ok, 'close_link must send the all-zero attitude set-point; found %s' % [norm(c) for c in cs])


def summarise_scoped(model, func):
    """summarise() with constants folded in the scope where each store was written."""
    ex = Explorer(func, inline=resolver_for(model))
    out = []
    scope = Scope.of(func)
    loc_scope = Scope(model.mod(FW.LOC), model.cls(FW.LOC, 'Localization'))

    def scope_of(ev):
        # events coming from an inlined Localization method fold in that class
        st = ev.stmt
        for k in (model.cls(FW.LOC, 'Localization'),):
            for mth in k.methods.values():
                if any(s is st for s in ast.walk(mth.node)):
                    return loc_scope
        if func.cls is not None:
            return scope
        return scope
    for p in ex.run():
        pk = {}
        sent = []
        for e in p.events:
            if e.kind == 'store':
                tgt = e.node.targets[0]
                if isinstance(tgt, ast.Attribute) and tgt.attr in ('port', 'channel', 'data') and isinstance(tgt.value, ast.Name):
                    pk.setdefault(tgt.value.id, {})[tgt.attr] = (e.node.value, scope_of(e))
            elif e.kind == 'call':
                c = e.node
                if method_call(c, 'set_header') and isinstance(c.func.value, ast.Name) and len(c.args) == 2:
                    d = pk.setdefault(c.func.value.id, {})
                    d['port'] = (c.args[0], scope_of(e))
                    d['channel'] = (c.args[1], scope_of(e))
                elif dotted(c.func) == 'CRTPPacket' and isinstance(e.stmt, ast.Assign) and isinstance(e.stmt.targets[0], ast.Name):
                    pk[e.stmt.targets[0].id] = {}
                elif method_call(c, 'send_packet') and norm(c.func.value) in ('self._cf', 'self.cf', 'self.crazyflie') and c.args and \
                        isinstance(c.args[0], ast.Name):
                    d = pk.get(c.args[0].id)
                    if d is None:
                        sent.append((('?',), c))
                        continue
                    port = fold(*d['port']) if 'port' in d else 0
                    chan = fold(*d['channel']) if 'channel' in d else 0
                    ds = data_summary(*d['data']) if 'data' in d else ('', [])
                    if ds is None:
                        ds = ('?', [norm(d['data'][0])])
                    else:
                        # a field that repeats a condition this path has already decided has that truth value
                        kn = known_under(p.conds, scope)
                        ds = (ds[0], [kn.get(x.strip('()'), x) for x in ds[1]])
                    sent.append(((port, chan, ds[0], ds[1]), c))
        guards = path_guards(p, scope, func)
        # guards that restate what the packet on this path already is (its payload size / type) are decided by the packet itself
        if len(sent) == 1 and sent[0][0] != '?':
            size = fmt_size(sent[0][0][2], sent[0][0][3])
            if size is not None and not sent[0][0][2].endswith('+tail'):
                import re
                decided = {}
                for gd in guards:
                    neg = gd.startswith('not ')
                    core = gd[4:] if neg else gd
                    mt = re.fullmatch(r'len\((\w+)\.data\)\s*==\s*(\d+)|(\d+)\s*==\s*len\((\w+)\.data\)', core.replace(' ', '').replace('==', ' == ').replace(' ', ''))
                    val = None
                    if re.fullmatch(r'\w+\.is_data_size_valid\(\)', core):
                        val = size <= 30
                    elif mt:
                        val = int(mt.group(2) or mt.group(3)) == size
                    elif re.fullmatch(r'isinstance\(\w+\.data,\s*bytearray\)', core):
                        val = True
                    if val is not None:
                        decided[gd] = (val != neg)
                if decided and not all(decided.values()):
                    continue                      # a path that contradicts its own packet is not a path
                guards = guards - set(decided)
        out.append((p, guards, sent))
    return out, ex


def fmt_size(fmt, fields):
    try:
        if fmt == 'bytes':
            return len(fields)
        if fmt.endswith('+tail'):
            return struct.calcsize(fmt[:-5])     # variable tail reported as assumption
        return sum(struct.calcsize(x) for x in fmt.split('+'))
    except struct.error:
        return None


CMD, HLC, LOC, PLT, LPS = FW.CMD, FW.HLC, FW.LOC, FW.PLT, FW.LPS
VARIANTS = [
    M('R4', ST, "        elif isinstance(data, list) or isinstance(data, tuple):\n            self._data = bytearray(data)", "        elif isinstance(data, list) or isinstance(data, tuple):\n            self._data = bytearray(b & 0xFF for b in data)", 'payload elements masked instead of range-checked'),
    M('R4', ST, "        self.size = 0\n        self._data = bytearray()", "        self.size = 0\n        self._data = self._NO_DATA", 'payload buffer shared between packets'),
    M('R1', CMD, "pk.data = struct.pack('<fffH', roll, -pitch, yawrate, thrust)", "pk.data = struct.pack('<fffH', roll, pitch, yawrate, thrust)", 'pitch sign lost'),
    M('R1', CMD, "pk.data = struct.pack('<Bffff', TYPE_HOVER,\n                                  vx, vy, yawrate, zdistance)", "pk.data = struct.pack('<Bffff', TYPE_HOVER,\n                                  vy, vx, yawrate, zdistance)", 'vx/vy swapped'),
    M('R1', CMD, "TYPE_ZDISTANCE = 9", "TYPE_ZDISTANCE = 10", 'type code'),
    M('R1', CMD, "pk.data = struct.pack('<Bffff', TYPE_VELOCITY_WORLD_LEGACY,\n                                  vx, vy, vz, -yawrate)", "pk.data = struct.pack('<Bffff', TYPE_VELOCITY_WORLD_LEGACY,\n                                  vx, vy, vz, yawrate)", 'legacy yaw flip lost'),
    M('R1', CMD, "        if self._cf.platform.get_protocol_version() <= 8:\n            warnings.warn(\n                'Using legacy TYPE_HOVER_LEGACY", "        if self._cf.platform.get_protocol_version() < 8:\n            warnings.warn(\n                'Using legacy TYPE_HOVER_LEGACY", 'version boundary'),
    M('R1', CMD, "            return int(vec[0] * 1000), int(vec[1] * 1000), int(vec[2] * 1000)", "            return int(vec[0] * 1000), int(vec[1] * 1000), int(vec[2] * 100)", 'z scale'),
    M('R1', CMD, "pk.data = struct.pack('<BhhhhhhhhhIhhh', TYPE_FULL_STATE,", "pk.data = struct.pack('<BhhhhhhhhhHhhh', TYPE_FULL_STATE,", 'quaternion width'),
    M('R1', CMD, "        pk.port = CRTPPort.COMMANDER_GENERIC\n        pk.channel = META_COMMAND_CHANNEL", "        pk.port = CRTPPort.COMMANDER_GENERIC", 'meta channel lost'),
    M('R1', HLC, "        if self._cf.platform.get_protocol_version() < 8:\n            if linear:", "        if self._cf.platform.get_protocol_version() <= 8:\n            if linear:", 'go_to version boundary'),
    M('R1', HLC, "                                      self.TRAJECTORY_LOCATION_MEM,\n                                      type,", "                                      type,\n                                      self.TRAJECTORY_LOCATION_MEM,", 'location/type swapped'),
    M('R1', HLC, "            target_yaw = 0.0\n            useCurrentYaw = True\n\n        self._send_packet(struct.pack('<BBff?f',\n                                      self.COMMAND_LAND_2,", "            target_yaw = 0.0\n\n        self._send_packet(struct.pack('<BBff?f',\n                                      self.COMMAND_LAND_2,", 'land ignores current-yaw flag'),
    M('R1', HLC, "            if r0 < 0:\n                r0 = 0", "            if r0 < 0:\n                r0 = -r0", 'negative radius mirrored'),
    M('R1', LOC, "pk.data = struct.pack('<fff', pos[0], pos[1], pos[2])", "pk.data = struct.pack('<fff', pos[0], pos[2], pos[1])", 'extpos y/z swapped'),
    M('R1', LOC, "        pk.channel = self.GENERIC_CH\n        pk.data = struct.pack('<B', self.EMERGENCY_STOP)", "        pk.channel = self.POSITION_CH\n        pk.data = struct.pack('<B', self.EMERGENCY_STOP)", 'emergency stop on position channel'),
    M('R1', FW.EXT, "self._cf.loc.send_extpose([x, y, z], [qx, qy, qz, qw])", "self._cf.loc.send_extpose([x, y, z], [qw, qx, qy, qz])", 'quaternion order'),
    M('R1', PLT, "pk.data = (PLATFORM_REQUEST_ARMING, do_arm)", "pk.data = (PLATFORM_REQUEST_CRASH_RECOVERY, do_arm)", 'arming command code'),
    M('R1', LPS, "data = struct.pack('<Bfff', LoPoAnchor.LPP_TYPE_POSITION, x, y, z)", "data = struct.pack('<Bfff', LoPoAnchor.LPP_TYPE_POSITION, x, z, y)", 'anchor position order'),
    M('R3', CMD, "        if thrust > 0xFFFF or thrust < 0:", "        if thrust > 0x1FFFF or thrust < 0:", 'thrust check widened'),
    M('R3', LOC, "            mask_geo += 1 << bs", "            mask_geo += 1 << (bs + 1)", 'mask bit shifted'),
    M('R3', LOC, "        max_bs_nr = 15", "        max_bs_nr = 16", 'max id'),
    M('R4', ST, "self.header = ((self._port & 0x0f) << 4 | 3 << 2 |", "self.header = ((self._port & 0x07) << 4 | 3 << 2 |", 'port mask narrowed'),
    M('R4', ST, "self._port = (header & 0xF0) >> 4", "self._port = (header & 0xF0) >> 3", 'reader shift'),
    M('R4', ST, "    MAX_DATA_SIZE = 30", "    MAX_DATA_SIZE = 31", 'max size'),
    M('R4', CF, "        if not pk.is_data_size_valid():\n            raise Exception('Data part of packet is too large')\n", "", 'size check removed'),
    M('R5', CF, "self.commander.send_setpoint(0, 0, 0, 0)", "self.commander.send_setpoint(0, 0, 0, 1000)", 'parting thrust'),
    B(CMD, "            roll, pitch = 0.707 * (roll - pitch), 0.707 * (roll + pitch)", "            roll, pitch = 0.707 * roll - 0.707 * pitch, (roll + pitch) * 0.707", 'x-mode algebra rewritten'),
    B(CMD, "        if self._cf.platform.get_protocol_version() <= 8:\n            warnings.warn(\n                'Using legacy TYPE_HOVER_LEGACY", "        if self._cf.platform.get_protocol_version() < 9:\n            warnings.warn(\n                'Using legacy TYPE_HOVER_LEGACY", '<= 8 as < 9'),
    B(LOC, "        pk.data = struct.pack('<B', self.EMERGENCY_STOP)", "        cmd = self.EMERGENCY_STOP\n        pk.data = struct.pack('<B', cmd)", 'temporary'),
    B(CMD, "        pk.port = CRTPPort.COMMANDER_GENERIC\n        pk.data = struct.pack('<B', TYPE_STOP)", "        pk.set_header(CRTPPort.COMMANDER_GENERIC, SET_SETPOINT_CHANNEL)\n        pk.data = struct.pack('<B', TYPE_STOP)", 'set_header'),
]
