"""C11 - the table cache never yields a wrong table, even after a crash."""
import ast

from ..astutil import catches_everything, dotted, handler_names, method_call, universal
from ..cfg import canon_test, cfg_of, fact_key, norm, walk_own
from ..consteval import fold_in
from ..mutate import B, M

PROP = 'C11'
TC = 'cflib/crazyflie/toccache.py'
TOC = 'cflib/crazyflie/toc.py'
LOG = 'cflib/crazyflie/log.py'
PAR = 'cflib/crazyflie/param.py'

EXPLANATION = (
    'Static analysis of TocCache and the fetcher cache branch: R1 every decode failure is a miss (open+decode inside try with a '
    'catch-all handler that does not re-raise; the result is assigned only by the successful decode, initialised None); R2 the file '
    'content is exactly one json.dumps of the table written by one write call, so every strict prefix is unparsable JSON; R3 a miss '
    '(falsy result) takes the download path and a hit adopts the table without element requests; R4 encoder key set = decoder key set, '
    'key k <-> attribute k on both sides, `extended` only for parameter elements on both sides, every attribute assigned by the element '
    'constructors is stored or in the reviewed exception table; R5 reader suffix and writer name use the same %08X.json pattern and '
    'both use the CRC announced by the device; R6 write-capable calls take paths derived from rw_cache only; R7 a hit is used only '
    'after its elements were validated against the element class being fetched (CRC collisions between log and parameter tables).')
ASSUMPTIONS = ['json.load rejects every strict prefix of a JSON object document', 'glob() does not write']
FLOORS = {'R1': 4, 'R2': 3, 'R3': 3, 'R4': 10, 'R5': 4, 'R6': 3, 'R7': 3}

# element attributes deliberately not cached
REVIEWED_UNCACHED = {'persistent': 're-queried from the device after every load because `extended` is cached'}
WRITE_CALLS = {'os.makedirs', 'os.mkdir', 'os.remove', 'os.unlink', 'os.rename', 'os.replace', 'os.rmdir', 'shutil.rmtree',
               'shutil.copy', 'shutil.move'}


def check(ctx):
    m = ctx.model
    tc = m.cls(TC, 'TocCache')
    fetch = tc.method('fetch')
    g = cfg_of(fetch)

    # ---- R1 ----------------------------------------------------------------------------
    loads = g.find(lambda n: isinstance(n, ast.Call) and dotted(n.func) in ('json.load', 'json.loads'))
    opens = g.find(lambda n: isinstance(n, ast.Call) and dotted(n.func) == 'open')
    ctx.need(len(loads) == 1 and len(opens) >= 1, 'TocCache.fetch: open/json.load not found')
    tries = [t for t in walk_own(fetch.node) if isinstance(t, ast.Try)]
    for label, (n, c) in (('decode', loads[0]), ('open', opens[0])):
        inside = [t for t in tries if any(c is x for s in t.body for x in walk_own(s))]
        ok = bool(inside) and any(catches_everything(h) for h in inside[-1].handlers) and catches_everything(inside[-1].handlers[0]) and \
            not any(isinstance(x, ast.Raise) for h in inside[-1].handlers for s in h.body for x in walk_own(s))
        ctx.inst('R1', fetch, label + '-failure-is-a-miss', ok, 'the %s must sit in a try whose first handler catches Exception and does not re-raise' % label)
    rets = [n for n in g.nodes if n.kind == 'return']
    ctx.need(len(rets) >= 1, 'fetch: no return')
    def is_none(e):
        return e is None or (isinstance(e, ast.Constant) and e.value is None)
    rv = {norm(n.ast.value) for n in rets if not is_none(n.ast.value)}
    ctx.inst('R1', fetch, 'single-result', len(rv) == 1 and all(is_none(n.ast.value) or isinstance(n.ast.value, ast.Name) for n in rets),
             'fetch returns one result variable (or None); returns %s' % sorted(rv))
    res = sorted(rv)[0] if rv else 'cache_data'
    asg, ok = [], bool(rv)
    for n in rets:
        if is_none(n.ast.value) or not isinstance(n.ast.value, ast.Name):
            continue
        for d in g.reaching_defs(n, n.ast.value.id):
            dv = g.def_value(d, n.ast.value.id)
            asg.append(d.ast if d.ast is not None else None)
            if not (dv is not None and (is_none(dv) or dv is loads[0][1])):
                ok = False
    ok = ok and any(isinstance(a, ast.Assign) and a.value is loads[0][1] for a in asg)
    ctx.inst('R1', fetch, 'result-only-from-decode', ok, 'the result is None unless the decode succeeded; values reaching the return: %s' % [norm(s) if s is not None else '<unbound>' for s in asg])
    hk = [k for k in loads[0][1].keywords if k.arg == 'object_hook']
    ctx.inst('R1', fetch, 'decoder-hook', len(hk) == 1 and norm(hk[0].value) == 'self._decoder', 'elements are rebuilt by self._decoder')

    # ---- R2 ----------------------------------------------------------------------------
    ins = tc.method('insert')
    gi = cfg_of(ins)
    writes = gi.find(lambda n: method_call(n, 'write') or method_call(n, 'writelines'))
    dumps = [c for c in walk_own(ins.node) if isinstance(c, ast.Call) and dotted(c.func) in ('json.dumps', 'json.dump')]
    ok = len(writes) == 1 and len(dumps) == 1 and (writes[0][1].args and writes[0][1].args[0] is dumps[0] or dotted(dumps[0].func) == 'json.dump')
    ctx.inst('R2', ins, 'single-json-document', ok, 'the file must be written by exactly one write of one json.dumps(...) (writes=%d dumps=%d)' % (len(writes), len(dumps)))
    if dumps:
        ctx.inst('R2', ins, 'dumps-table', norm(dumps[0].args[0]) == ins.params[2], 'the serialised object is the table argument')
        dk = [k for k in dumps[0].keywords if k.arg == 'default']
        ctx.inst('R2', ins, 'encoder-hook', len(dk) == 1 and norm(dk[0].value) == 'self._encoder', 'elements are serialised by self._encoder')
    loops = [x for x in walk_own(ins.node) if isinstance(x, (ast.For, ast.While))]
    ctx.inst('R2', ins, 'no-loop-writes', not loops, 'no incremental writing')

    # ---- R4 ----------------------------------------------------------------------------
    cache_codec_rules(ctx, 'R4')

    # ---- R5 ----------------------------------------------------------------------------
    rpat, rfun = cache_name_rules(ctx, 'R5')
    ends = [c for c in walk_own(rfun.node) if method_call(c, 'endswith') and norm(c.args[0]) == norm(rpat.targets[0])]
    ctx.inst('R5', fetch, 'suffix-match', len(ends) == 1, 'candidate files are matched by name suffix')
    # every way a file name can become the chosen one goes through that one test: no second look-up with a looser pattern
    grf_ = cfg_of(rfun)
    pv_ = norm(rpat.targets[0])
    loose = []
    for n_ in grf_.nodes:
        if n_.kind == 'stmt' and isinstance(n_.ast, ast.Assign) and isinstance(n_.ast.value, ast.Name) and n_.kind == 'stmt':
            # name = <loop variable over the cache files>: a candidate is adopted here
            lv_ = [l_ for l_ in grf_.nodes if l_.kind == 'for' and '_cache_files' in norm(l_.ast.iter) and norm(l_.ast.target) == n_.ast.value.id and
                   n_.id in {b_.id for b_ in grf_.loop_body_nodes(l_)}]
            if lv_ and fact_key('%s.endswith(%s)' % (n_.ast.value.id, pv_), True) not in grf_.fact_keys_at(n_):
                loose.append('%s under %s' % (norm(n_.ast), sorted(k_[0] for k_ in grf_.fact_keys_at(n_))))
    ctx.inst('R5', fetch, 'every-candidate-by-exact-name', not loose, 'a cache file is chosen only when its name ends with the 8-digit pattern of the announced CRC; '
             'chosen otherwise: %s' % loose)
    fcb = m.func(TOC, 'TocFetcher._new_packet_cb')
    fc = [c for c in walk_own(fcb.node) if method_call(c, 'fetch') and 'cache' in norm(c.func.value)]
    ic = [c for c in walk_own(fcb.node) if method_call(c, 'insert') and 'cache' in norm(c.func.value)]
    ctx.inst('R5', fcb, 'fetch-by-announced-crc', len(fc) == 1 and [norm(a) for a in fc[0].args] == ['self._crc'], 'cache looked up with the announced CRC')
    ctx.inst('R5', fcb, 'insert-under-announced-crc', len(ic) >= 1 and all([norm(a) for a in c.args] == ['self._crc', 'self.toc.toc'] for c in ic),
             'downloaded table stored under the announced CRC')

    # ---- R3 / R7 -------------------------------------------------------------------------
    gf = cfg_of(fcb)
    adopt = [n for n in gf.nodes if n.kind == 'stmt' and isinstance(n.ast, ast.Assign) and norm(n.ast.targets[0]) == 'self.toc.toc']
    ctx.need(len(adopt) == 1, 'fetcher: adoption of the cached table not found')
    cvar = norm(adopt[0].ast.value)
    hit_edges = [e for e in gf.dominating_edges(adopt[0]) if e.label and e.label[0] == 'cond' and cvar in norm(e.label[1])]
    ctx.need(len(hit_edges) == 1, 'fetcher: cache-hit test not recognised')
    he = hit_edges[0]
    me = [e for e in he.src.succ if e.label and e.label[0] == 'cond' and e is not he][0]
    facts = {f.text: f for f in he.facts()}
    ctx.inst('R3', fcb, 'hit-requires-truthy-result', (cvar in facts and facts[cvar].pol is True) or truthy_or_validated(gf, adopt[0], cvar, fcb.cls), 'a falsy cache result (None / unparsable / empty) must not be adopted')
    cached_table_adoption_rule(ctx, 'R3')
    from .c03 import fetcher_unsubscribe_rules
    from .c07 import caller_rules, removal_predicate_rules
    caller_rules(ctx, 'R2')
    removal_predicate_rules(ctx, 'R2')      # the finished fetcher's packet callback (a bound method) is really removed: == not `is` (shared with C07.R4)
    fetcher_unsubscribe_rules(ctx, 'R2')      # what is stored under a checksum was downloaded in ONE session: a fetcher aborted by close / link loss does not go on in the next (shared with C03.R9)
    reqs = gf.find(lambda n: method_call(n, '_request_toc_element'))
    ctx.inst('R3', fcb, 'hit-requests-nothing', all(('e', he.id) not in gf.dom()[('n', n.id)] for n, _ in reqs), 'a cache hit must not request elements')
    miss_req = [n for n, _ in reqs if ('e', me.id) in gf.dom()[('n', n.id)]]
    ctx.inst('R3', fcb, 'miss-downloads', len(miss_req) >= 1, 'a miss must start the element download')
    valid = [f for f in he.facts() if isinstance(f.node, ast.Call) and cvar in [norm(a) for a in f.node.args] and f.pol]
    ok7 = False
    if valid:
        callee = valid[0].node.func
        if isinstance(callee, ast.Attribute) and norm(callee.value) == 'self' and fcb.cls.has(callee.attr):
            vf = fcb.cls.method(callee.attr)
            u = universal(vf.node)
            ok7 = False
            if u is not None and len(u['gens']) == 2 and not u['filters']:
                (g1, it1), (el, it2) = u['gens']
                ok7 = it1 in ('%s.values()' % vf.params[1],) and it2 == '%s.values()' % g1 and u['pred'] == canon_test(ast.parse('isinstance(%s, self.element_class)' % el, mode='eval').body)
            ctx.inst('R7', vf, 'validator-checks-every-element', ok7, 'the validator must test every cached element against self.element_class')
            # whatever parses as JSON reaches the validator (a list, a string, a dictionary of numbers): `.values()` of such a value
            # raises AttributeError inside the packet callback and the connection never completes, so that has to end as a miss
            walks = [c for c in ast.walk(vf.node) if method_call(c, 'values')]
            tries = [t for t in ast.walk(vf.node) if isinstance(t, ast.Try) and all(any(c is x for b_ in t.body for x in ast.walk(b_)) for c in walks)]
            soft = [t for t in tries for h in t.handlers if (catches_everything(h) or 'AttributeError' in handler_names(h)) and
                    any(isinstance(r, ast.Return) and isinstance(r.value, ast.Constant) and not r.value.value for r in h.body)]
            typed = any(isinstance(c, ast.Call) and norm(c.func) == 'isinstance' and len(c.args) == 2 and 'dict' in norm(c.args[1]) for c in ast.walk(vf.node))
            if walks and not typed:
                ctx.inst('R7', vf, 'wrong-shape-is-a-miss', bool(soft), 'a cached document that is not a table of tables (any other JSON value) makes `.values()` raise AttributeError: '
                         'the validator must turn that into False (a miss), not into an exception in the packet callback')
    ctx.inst('R7', fcb, 'hit-validated-against-kind', ok7,
             'the cache key is the CRC only: a hit must be validated against the element class being fetched before it is adopted '
             '(a log and a parameter table with equal CRC share one file)')

    # ---- R6 ----------------------------------------------------------------------------------
    for f in tc.methods.values():
        for c in walk_own(f.node):
            if not isinstance(c, ast.Call):
                continue
            d = dotted(c.func)
            if d == 'open':
                mode = fold_in(f, c.args[1]) if len(c.args) > 1 else next((fold_in(f, k.value) for k in c.keywords if k.arg == 'mode'), 'r')
                if not isinstance(mode, str) or any(x in mode for x in 'wax+'):
                    src = path_source(f, c.args[0])
                    ctx.inst('R6', f, 'write-open:' + norm(c.args[0]), src == 'rw', 'file opened for writing must be below rw_cache; path derives from %s' % src, line=c.lineno)
            elif d in WRITE_CALLS:
                src = path_source(f, c.args[0])
                ctx.inst('R6', f, 'write-call:' + d, src == 'rw', '%s(%s) must target rw_cache; path derives from %s' % (d, norm(c.args[0]), src), line=c.lineno)
    # the two directories keep their roles on the way from the factory to the cache: ro stays ro, rw stays rw
    SWM = 'cflib/crazyflie/swarm.py'
    fac = m.cls(SWM, 'CachedCfFactory')
    fin, fco = fac.method('__init__'), fac.method('construct')
    fst = {norm(s_.targets[0]): norm(s_.value) for s_ in walk_own(fin.node) if isinstance(s_, ast.Assign)}
    mk_ = [c for c in walk_own(fco.node) if isinstance(c, ast.Call) and dotted(c.func) == 'Crazyflie']
    kw_ = {k.arg: norm(k.value) for k in mk_[0].keywords} if len(mk_) == 1 else {}
    ctx.inst('R6', fin, 'factory-keeps-cache-roles', fst.get('self.ro_cache') == 'ro_cache' and fst.get('self.rw_cache') == 'rw_cache' and
             kw_.get('ro_cache') == 'self.ro_cache' and kw_.get('rw_cache') == 'self.rw_cache',
             'CachedCfFactory hands ro_cache on as ro_cache and rw_cache as rw_cache (a read-only directory used as the writable one gets written); stores %s, passes %s' % (fst, kw_))
    cfi = m.func('cflib/crazyflie/__init__.py', 'Crazyflie.__init__')
    mk_ = [c for c in walk_own(cfi.node) if isinstance(c, ast.Call) and dotted(c.func) == 'TocCache']
    kw_ = {k.arg: norm(k.value) for k in mk_[0].keywords} if len(mk_) == 1 else {}
    ctx.inst('R6', cfi, 'crazyflie-keeps-cache-roles', kw_ == {'ro_cache': 'ro_cache', 'rw_cache': 'rw_cache'} or (len(mk_) == 1 and [norm(a_) for a_ in mk_[0].args] == ['ro_cache', 'rw_cache']),
             'Crazyflie hands its ro_cache / rw_cache arguments to TocCache under the same roles; passes %s' % kw_)
    init = tc.method('__init__')
    st = [s for s in walk_own(init.node) if isinstance(s, ast.Assign) and norm(s.targets[0]) == 'self._rw_cache']
    ctx.inst('R6', init, 'rw-attr', len(st) == 1 and norm(st[0].value) == 'rw_cache', 'self._rw_cache is the rw_cache argument')


def cache_codec_rules(ctx, rule='R4'):
    """Encoder and decoder of the cache agree: same keys, each key written from and read into the same attribute, `extended` handled for
    parameter elements on both sides.  Shared with C03 (cache present: the adopted table carries the device's attributes incl. the
    extended marker that triggers the persistence query)."""
    m = ctx.model
    tc = m.cls(TC, 'TocCache')
    enc = tc.method('_encoder')
    dec = tc.method('_decoder')
    ekeys, e_ext = encoder_keys(enc)
    dkeys, d_ext = decoder_keys(dec)
    ctx.need(ekeys and dkeys, 'encoder/decoder key tables not recognised')
    ctx.inst(rule, enc, 'key-sets-agree', set(ekeys) == set(dkeys), 'encoder keys %s vs decoder keys %s' % (sorted(ekeys), sorted(dkeys)))
    for k in sorted(set(ekeys) | set(dkeys)):
        if k == '__class__':
            continue
        ctx.inst(rule, enc, 'key<->attr:' + k, ekeys.get(k) == k and dkeys.get(k) == k,
                 'key %r is written from attribute %r and read into attribute %r' % (k, ekeys.get(k), dkeys.get(k)))
    ctx.inst(rule, enc, 'class-tag', ekeys.get('__class__') == '__class__.__name__' and dkeys.get('__class__') in ('<eval>', '<table>'), 'class tag written from the class name and used to construct the element')
    ctx.inst(rule, enc, 'extended-param-only', e_ext == {'extended'} and d_ext == {'extended'},
             'conditional (ParamTocElement only) keys: encoder %s decoder %s' % (sorted(e_ext), sorted(d_ext)))
    # the decoder reads the stored record as it is: it does not fill in, drop or rewrite keys (a defaulted `extended` marks every
    # parameter of an old-layout file as not extended, so the persistence query is never made)
    rec = dec.params[-1]
    edits = [norm(x)[:60] for x in ast.walk(dec.node) if
             (isinstance(x, ast.Call) and isinstance(x.func, ast.Attribute) and norm(x.func.value) == rec and x.func.attr in ('setdefault', 'update', 'pop', 'popitem', 'clear', '__setitem__')) or
             (isinstance(x, ast.Subscript) and isinstance(x.ctx, (ast.Store, ast.Del)) and norm(x.value) == rec)]
    soft = [norm(x)[:60] for x in ast.walk(dec.node) if isinstance(x, ast.Call) and isinstance(x.func, ast.Attribute) and norm(x.func.value) == rec and x.func.attr == 'get'
            and len(x.args) + len(x.keywords) >= 1]
    ctx.inst(rule, dec, 'record-read-as-stored', not edits and not soft, 'the decoder takes every key from the stored record (a missing key makes the file unusable = a miss); '
             'record edited / defaulted by: %s' % (edits + soft))
    # attribute inventory of the two element classes
    for path, cname in ((LOG, 'LogTocElement'), (PAR, 'ParamTocElement')):
        k = m.cls(path, cname)
        attrs = {t.attr for s in walk_own(k.method('__init__').node) if isinstance(s, ast.Assign) for t in s.targets
                 if isinstance(t, ast.Attribute) and isinstance(t.value, ast.Name) and t.value.id == 'self'}
        uncached = attrs - set(ekeys) - set(REVIEWED_UNCACHED)
        ctx.inst(rule, (path, cname), 'all-attributes-cached', not uncached, 'element attributes not cached and not in the reviewed exception table: %s' % sorted(uncached), reads=[enc, dec])



def cache_name_rules(ctx, rule='R5'):
    """Reader and writer of the cache format the CRC identically (shared with C03: a table cached for another CRC must never be adopted)."""
    m = ctx.model
    tc = m.cls(TC, 'TocCache')
    fetch, ins = tc.method('fetch'), tc.method('insert')
    rn = name_exprs(tc, fetch)
    wn = name_exprs(tc, ins)
    ctx.need(len(rn) == 1 and len(wn) == 1, 'file name patterns not found (reader %d, writer %d)' % (len(rn), len(wn)))
    rspec, wspec = name_spec(rn[0][1], rn[0][2]), name_spec(wn[0][1], wn[0][2])
    ctx.need(rspec is not None and wspec is not None, 'file name format not recognised')
    ok = rspec['crc_spec'] == wspec['crc_spec'] == ('0', 8, 'X') and rspec['suffix'] == wspec['suffix'] == '.json' and rspec['prefix_args'] == []
    ctx.inst(rule, fetch, 'name-pattern', ok,
             'reader and writer must format the CRC identically as 8 zero-padded upper-case hex digits + .json (a shorter reader pattern matches other tables by suffix); '
             'reader %s writer %s' % (rspec, wspec))
    ctx.inst(rule, fetch, 'reader-key=crc', rspec['crc_arg'] == fetch.params[1], 'lookup key is the crc argument; found %s' % rspec['crc_arg'])
    ctx.inst(rule, ins, 'writer-key=crc', wspec['crc_arg'] == ins.params[1] and wspec['prefix_args'] == ['self._rw_cache'] and wspec['sep'] == '/',
             'file name is built from rw_cache and the crc argument; found dir %s crc %s' % (wspec['prefix_args'], wspec['crc_arg']))
    return rn[0][0], rn[0][2]


def _helper_name(klass, v):
    """self._file_name(crc) / TocCache._file_name(crc) -> (format expr with the arguments substituted, helper) or None"""
    if isinstance(v, ast.Call) and isinstance(v.func, ast.Attribute) and norm(v.func.value) in ('self', klass.name, 'cls') and klass.has(v.func.attr):
        h = klass.method(v.func.attr)
        rets = [r.value for r in walk_own(h.node) if isinstance(r, ast.Return) and r.value is not None]
        if len(rets) == 1 and '.json' in norm(rets[0]):
            from ..symexec import subst
            static = any(norm(d) == 'staticmethod' for d in h.node.decorator_list)
            ps = h.params if static else h.params[1:]
            return subst(rets[0], {p: a for p, a in zip(ps, v.args)}), h
    return None


def name_exprs(klass, func, _depth=0):
    """[(assign stmt, format expression, function it is written in)] for assignments building a '*.json' file name in func,
    following one level of same-class helper calls and os.path.join(dir, name)."""
    out = []
    for st in walk_own(func.node):
        if not isinstance(st, ast.Assign):
            continue
        v = st.value
        hn = _helper_name(klass, v)
        if hn:
            out.append((st, hn[0], hn[1]))
            continue
        if isinstance(v, ast.Call) and dotted(v.func) == 'os.path.join' and len(v.args) == 2:
            inner = _helper_name(klass, v.args[1])
            tail = inner[0] if inner else v.args[1]
            if '.json' in norm(tail):
                out.append((st, ('join', v.args[0], tail), func))
            continue
        if '.json' in norm(v) and (not isinstance(v, ast.Call) or (isinstance(v.func, ast.Attribute) and v.func.attr == 'format')):
            out.append((st, v, func))
    if not out and _depth < 1:
        # the name may be built in a same-class helper that does the whole look-up (e.g. hit = self._find(crc))
        from ..symexec import subst
        for c in walk_own(func.node):
            if isinstance(c, ast.Call) and isinstance(c.func, ast.Attribute) and norm(c.func.value) == 'self' and klass.has(c.func.attr) and c.func.attr != func.name:
                h = klass.method(c.func.attr)
                for st, e, hf in name_exprs(klass, h, _depth + 1):
                    mp = {p_: a for p_, a in zip(h.params[1:], c.args)}
                    out.append((st, subst(e, mp) if isinstance(e, ast.AST) else e, hf))
    return out


def name_spec(expr, func):
    """Normalise '%s/%08X.json' % (d, crc), '{}/{:08X}.json'.format(d, crc), f'{d}/{crc:08X}.json' to
    {prefix_args, sep, crc_arg, crc_spec=(fill, width, type), suffix}."""
    import re as _re
    if isinstance(expr, tuple) and expr[0] == 'join':
        sp = name_spec(expr[2], func)
        if sp is None:
            return None
        sp['prefix_args'] = [norm(expr[1])] + sp['prefix_args']
        sp['sep'] = '/' + sp['sep']
        return sp
    parts = []          # list of ('lit', text) / ('arg', expr text, spec)
    if isinstance(expr, ast.BinOp) and isinstance(expr.op, ast.Mod) and isinstance(expr.left, ast.Constant) and isinstance(expr.left.value, str):
        args = list(expr.right.elts) if isinstance(expr.right, ast.Tuple) else [expr.right]
        pos = 0
        i = 0
        for mt in _re.finditer(r'%(0?)(\d*)([sdXx])', expr.left.value):
            parts.append(('lit', expr.left.value[pos:mt.start()]))
            parts.append(('arg', norm(args[i]) if i < len(args) else '?', ('0' if mt.group(1) else '', int(mt.group(2) or 0), mt.group(3))))
            i += 1
            pos = mt.end()
        parts.append(('lit', expr.left.value[pos:]))
    elif isinstance(expr, ast.Call) and isinstance(expr.func, ast.Attribute) and expr.func.attr == 'format' and isinstance(expr.func.value, ast.Constant):
        txt = expr.func.value.value
        pos = 0
        i = 0
        for mt in _re.finditer(r'\{(\d*)(?::(0?)(\d*)([sdXx]?))?\}', txt):
            parts.append(('lit', txt[pos:mt.start()]))
            idx = int(mt.group(1)) if mt.group(1) else i
            parts.append(('arg', norm(expr.args[idx]) if idx < len(expr.args) else '?', ('0' if mt.group(2) else '', int(mt.group(3) or 0), mt.group(4) or 's')))
            i += 1
            pos = mt.end()
        parts.append(('lit', txt[pos:]))
    elif isinstance(expr, ast.JoinedStr):
        for v in expr.values:
            if isinstance(v, ast.Constant):
                parts.append(('lit', str(v.value)))
            elif isinstance(v, ast.FormattedValue):
                spec = ''
                if v.format_spec is not None and all(isinstance(x, ast.Constant) for x in v.format_spec.values):
                    spec = ''.join(str(x.value) for x in v.format_spec.values)
                mt = _re.match(r'^(0?)(\d*)([sdXx]?)$', spec)
                if not mt:
                    return None
                parts.append(('arg', norm(v.value), ('0' if mt.group(1) else '', int(mt.group(2) or 0), mt.group(3) or 's')))
    else:
        return None
    args = [p for p in parts if p[0] == 'arg']
    lits = [p[1] for p in parts if p[0] == 'lit']
    if not args:
        return None
    crc = args[-1]
    return {'prefix_args': [a[1] for a in args[:-1]], 'sep': ''.join(lits[:-1]).replace('%', ''), 'crc_arg': crc[1], 'crc_spec': crc[2], 'suffix': lits[-1]}


def path_source(f, node, _seen=None):
    """'rw' if the path expression derives only from rw_cache / self._rw_cache, 'ro' if it mentions ro_cache, else 'unknown'.
    A local name takes the worst source of all its assignments in the function."""
    seen = _seen if _seen is not None else set()
    t = norm(node)
    names = {n.id for n in ast.walk(node) if isinstance(n, ast.Name)}
    if 'ro_cache' in names or '_ro_cache' in t:
        return 'ro'
    if t in ('rw_cache', 'self._rw_cache'):
        return 'rw'
    if isinstance(node, ast.Name) and node.id not in seen:
        seen.add(node.id)
        defs = [s for s in walk_own(f.node) if isinstance(s, ast.Assign) and any(norm(t_) == node.id for t_ in s.targets)]
        if defs:
            srcs = {path_source(f, d.value, seen) for d in defs}
            return 'ro' if 'ro' in srcs else 'unknown' if 'unknown' in srcs else 'rw'
        return 'unknown'
    if isinstance(node, ast.Call) and not (dotted(node.func) in ('os.path.join', 'str') or (isinstance(node.func, ast.Attribute) and node.func.attr == 'format')):
        return 'unknown'                                                   # result of a look-up: may be any known file
    if ('rw_cache' in names or 'self._rw_cache' in t) and 'name' not in names and 'hit' not in names:
        return 'rw'
    return 'unknown'


def encoder_keys(enc):
    keys, cond = {}, set()
    pv = enc.params[-1] + '.'          # the element being encoded (self, obj) or a static (obj)
    for n in ast.walk(enc.node):
        if isinstance(n, ast.Dict):
            for k, v in zip(n.keys, n.values):
                if isinstance(k, ast.Constant):
                    keys[k.value] = norm(v)[len(pv):] if norm(v).startswith(pv) else norm(v)
    g = cfg_of(enc)
    for node in g.nodes:
        if node.kind == 'stmt' and isinstance(node.ast, ast.Assign) and isinstance(node.ast.targets[0], ast.Subscript) and \
                isinstance(node.ast.targets[0].slice, ast.Constant):
            k = node.ast.targets[0].slice.value
            v = norm(node.ast.value)
            keys[k] = v[len(pv):] if v.startswith(pv) else v
            if any('isinstance(%s, ParamTocElement)' % pv[:-1] == f[0] and f[1] for f in g.fact_keys_at(node)):
                cond.add(k)
    return keys, cond


def decoder_keys(dec):
    keys, cond = {}, set()
    g = cfg_of(dec)
    for node in g.nodes:
        if node.kind != 'stmt' or not isinstance(node.ast, ast.Assign):
            continue
        t, v = node.ast.targets[0], node.ast.value
        subs = [x for x in ast.walk(v) if isinstance(x, ast.Subscript) and norm(x.value) == dec.params[1] and isinstance(x.slice, ast.Constant)]
        if not subs:
            continue
        k = subs[0].slice.value
        if isinstance(t, ast.Attribute) and norm(t.value) == 'elem':
            keys[k] = t.attr
            if any('isinstance(elem, ParamTocElement)' == f[0] and f[1] for f in g.fact_keys_at(node)):
                cond.add(k)
        elif any(isinstance(x, ast.Call) and dotted(x.func) == 'eval' for x in ast.walk(v)):
            keys[k] = '<eval>'
        elif isinstance(v, ast.Call) and isinstance(v.func, ast.Subscript) and subs[0] is v.func.slice:
            keys[k] = '<table>'          # class looked up in a name -> class table
    return keys, cond


def truthy_or_validated(g, node, cvar, klass):
    """the cached value is known to be truthy at ``node``: tested itself, or passed to a validator of the class whose first statement
    turns a falsy argument away (`if not x: return False`)"""
    keys = g.fact_keys_at(node)
    if fact_key(cvar, True) in keys:
        return True
    for f in g.facts_at(node):
        c = f.node
        if f.pol and isinstance(c, ast.Call) and isinstance(c.func, ast.Attribute) and norm(c.func.value) == 'self' and klass is not None and klass.has(c.func.attr) and \
                [norm(a) for a in c.args] == [cvar]:
            vf = klass.method(c.func.attr)
            body = [s_ for s_ in vf.node.body if not (isinstance(s_, ast.Expr) and isinstance(s_.value, ast.Constant))]
            if body and isinstance(body[0], ast.If) and not body[0].orelse and norm(body[0].test) == 'not %s' % vf.params[1] and len(body[0].body) == 1 and \
                    isinstance(body[0].body[0], ast.Return) and isinstance(body[0].body[0].value, ast.Constant) and body[0].body[0].value.value is False:
                return True
    return False


def cached_table_adoption_rule(ctx, rule):
    """A cached table is adopted only when the cache gave a truthy result: None (miss), an unparsable file and an EMPTY table (which
    passes every per-element check vacuously) must lead to a download.  Shared with C02 (connected only when the tables are
    complete) and C03 (the tables equal the device's)."""
    m = ctx.model
    fcb = m.func(TOC, 'TocFetcher._new_packet_cb')
    gf = cfg_of(fcb)
    adopt = [n for n in gf.nodes if n.kind == 'stmt' and isinstance(n.ast, ast.Assign) and norm(n.ast.targets[0]) == 'self.toc.toc']
    ctx.need(len(adopt) == 1, 'fetcher: adoption of the cached table not found')
    cvar = norm(adopt[0].ast.value)
    ok = truthy_or_validated(gf, adopt[0], cvar, fcb.cls)
    ctx.inst(rule, fcb, 'hit-requires-truthy-result', ok, 'a falsy cache result (None / unparsable / empty table) must not be adopted; guards %s' % sorted(gf.fact_keys_at(adopt[0])))
    # the completion callback reads the table (extended elements, the walk over all parameters): on a hit the cached table has to be
    # in place before the download is declared finished
    fin = [n for n, _ in gf.find(lambda q: method_call(q, '_toc_fetch_finished'))]
    late = [n for n in fin if gf.path_avoiding(n, [adopt[0]], avoid=[x for x in gf.nodes if x.kind in ('return',)]) is not None]
    ctx.inst(rule, fcb, 'adopted-before-completion', bool(fin) and not late, 'the cached table is stored before _toc_fetch_finished() runs on the hit branch (stored after it at line %s)' %
             [n.line for n in late])


VARIANTS = [
    M('R3', TOC, "                self.toc.toc = cache_data\n                logger.info('TOC for port [%s] found in cache' % self.port)\n                self._toc_fetch_finished()\n", "                logger.info('TOC for port [%s] found in cache' % self.port)\n                self._toc_fetch_finished()\n                self.toc.toc = cache_data\n", 'cached table adopted after completion'),
    M('R7', TOC, "        try:\n            return all(isinstance(element, self.element_class)\n                       for group in cache_data.values()\n                       for element in group.values())\n        except AttributeError:\n            return False", "        return all(isinstance(element, self.element_class)\n                   for group in cache_data.values()\n                   for element in group.values())", 'wrong-shaped cache document raises'),
    M('R1', TC, "            except Exception as exp:\n                logger.warning('Error while parsing cache file [%s]:%s',", "            except ValueError as exp:\n                logger.warning('Error while parsing cache file [%s]:%s',", 'narrow handler'),
    M('R1', TC, "        cache_data = None\n        pattern = '%08X.json' % crc", "        cache_data = {}\n        pattern = '%08X.json' % crc", 'result starts non-None'),
    M('R2', TC, "                cache.write(json.dumps(toc, indent=2,\n                                       default=self._encoder))", "                cache.write('{')\n                cache.write(json.dumps(toc, indent=2,\n                                       default=self._encoder)[1:])", 'two writes'),
    M('R3', TOC, "            if (cache_data and self._is_cached_toc_usable(cache_data)):", "            if (cache_data is not None and self._is_cached_toc_usable(cache_data)):", 'None-only test'),
    M('R4', TC, "            elem.ctype = str(obj['ctype'])\n            elem.pytype = str(obj['pytype'])", "            elem.ctype = str(obj['pytype'])\n            elem.pytype = str(obj['ctype'])", 'ctype/pytype swapped'),
    M('R4', TC, "        if isinstance(obj, ParamTocElement):\n            encoded['extended'] = obj.extended\n", "", 'extended not stored'),
    M('R4', TC, "            'access': obj.access,\n", "", 'access not stored'),
    M('R5', TC, "        pattern = '%08X.json' % crc", "        pattern = '%08x.json' % crc", 'lower-case reader'),
    M('R5', TOC, "            cache_data = self._toc_cache.fetch(self._crc)", "            cache_data = self._toc_cache.fetch(self.nbr_of_items)", 'wrong key'),
    M('R6', TC, "                filename = '%s/%08X.json' % (self._rw_cache, crc)", "                filename = '%s/%08X.json' % (self._ro_cache, crc)", 'write to ro dir',
      extra=[(TC, "        self._rw_cache = rw_cache", "        self._rw_cache = rw_cache\n        self._ro_cache = ro_cache")]),
    M('R7', TOC, "            if (cache_data and self._is_cached_toc_usable(cache_data)):", "            if (cache_data):", 'F-11a reintroduced'),
    B(TC, "                cache = open(hit)\n                cache_data = json.load(cache,\n                                       object_hook=self._decoder)\n                cache.close()",
      "                with open(hit) as cache:\n                    cache_data = json.load(cache,\n                                           object_hook=self._decoder)", 'with open'),
]
