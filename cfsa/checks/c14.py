"""C14 - stored configuration images round-trip and validity follows the checksum."""
import ast
import struct

from .. import bits as B_
from ..astutil import norm_nc, dotted, effective, method_call
from ..cfg import canon_test, cfg_of, fact_key, norm, walk_own
from ..consteval import Scope, class_const, fold_in
from ..flow import byte_image, consumed_argument_rules, one_shot_callback_rules
from ..mutate import B, M

PROP = 'C14'
I2C = 'cflib/crazyflie/mem/i2c_element.py'
OW = 'cflib/crazyflie/mem/ow_element.py'
LH = 'cflib/crazyflie/mem/lighthouse_memory.py'
DK = 'cflib/crazyflie/mem/deck_memory.py'
LO1 = 'cflib/crazyflie/mem/loco_memory.py'
LO2 = 'cflib/crazyflie/mem/loco_memory_2.py'
CFGM = 'cflib/localization/lighthouse_config_manager.py'
PIO = 'cflib/localization/param_io.py'
MEM_PATHS = [I2C, OW, LO1, LO2, 'cflib/crazyflie/mem/led_driver_memory.py', 'cflib/crazyflie/mem/led_timings_driver_memory.py', 'cflib/crazyflie/mem/trajectory_memory.py']

EXPLANATION = (
    'Writer/reader layout agreement by static comparison of struct formats, slice bounds, field order and source/destination '
    'attributes: R1 EEPROM image (token, <BBBff, v1 tail B+I, checksum last; reader slices [0:4],[4:15], byte 15 + second read (16,5); '
    'address hi<<32|lo vs >>32,&0xFFFFFFFF); R2 validity only under checksum/CRC equality over all-but-last byte, reset by update(); '
    'R3 1-wire header <BIBB+crc vs <BIBBB on [0:8], element area (0,len)+TLVs+crc vs the TLV walk; R4 every buffer handed to the '
    'element parser starts at the element area (offset 8) and the no-second-read verdict requires announced length 0; R5 lighthouse '
    'memory geometry/calibration field order and formats agree, SIZE_* constants equal the summed calcsize, page addressing identical '
    'for read and write; R6 YAML: as_file_object keys = from_file_object keys with key<->attribute agreement, envelope keys/type/version '
    'written = compared on read (lighthouse and parameter files); R7 deck info section: 0x20 = 2 + calcsize(<LLL18s), masks are distinct '
    'single bits, info offsets; loco anchors: <fff? = page length, id list = 1 + max; the deck name extraction is total for an unterminated 18-byte field; R8 LED timing image: record layout, flags byte, terminator, and no all-zero record before the terminator (shared with C13.R5); R9 trajectory images: units, unmasked int16 packing, type codes, layouts (shared with C13.R4).')
ASSUMPTIONS = ['crc32/checksum functions are correct; only which bytes they cover and which byte they are compared with is decided']
FLOORS = {'R1': 9, 'R2': 8, 'R3': 7, 'R4': 3, 'R5': 12, 'R6': 12, 'R7': 14, 'R8': 4, 'R9': 8}


def packs(func):
    out = [c for c in walk_own(func.node) if isinstance(c, ast.Call) and dotted(c.func) == 'struct.pack']
    return sorted(out, key=lambda c: (c.lineno, c.col_offset))


def unpacks(func):
    out = [c for c in walk_own(func.node) if isinstance(c, ast.Call) and dotted(c.func) == 'struct.unpack']
    return sorted(out, key=lambda c: (c.lineno, c.col_offset))


def sl(node, f):
    """(base text, lo, hi) of a slice subscript with folded bounds"""
    if isinstance(node, ast.Subscript) and isinstance(node.slice, ast.Slice):
        lo = fold_in(f, node.slice.lower) if node.slice.lower is not None else 0
        hi = fold_in(f, node.slice.upper) if node.slice.upper is not None else None
        return norm(node.value), lo, hi
    return None


def complete_before_callback_rules(ctx, rule, paths):
    """An image is handed to the application when its finished-callback runs: `valid`, the parsed fields and every other result
    attribute have to be stored before that call.  After it only the callback slots themselves may be cleared (`= None`)."""
    m = ctx.model
    n = 0
    for path in paths:
        for f in m.mod(path).all_funcs():
            if f.cls is None:
                continue
            calls = []
            for c in walk_own(f.node):
                if isinstance(c, ast.Call) and isinstance(c.func, ast.Attribute) and norm(c.func.value) == 'self' and c.func.attr.endswith('_finished_cb'):
                    calls.append(c)
            if not calls:
                continue
            late = []
            for c in calls:
                # the statements that follow the call in its own block (the paths through enclosing blocks depend on values:
                # `if done:` after a branch that left done False)
                for holder in ast.walk(f.node):
                    for fld in ('body', 'orelse', 'finalbody'):
                        blk = getattr(holder, fld, None)
                        if not isinstance(blk, list):
                            continue
                        idx = [i for i, st in enumerate(blk) if isinstance(st, ast.Expr) and st.value is c]
                        for st in (blk[idx[0] + 1:] if idx else []):
                            for x in ast.walk(st):
                                if isinstance(x, (ast.Assign, ast.AugAssign)):
                                    tg = x.targets if isinstance(x, ast.Assign) else [x.target]
                                    if any(isinstance(t, ast.Attribute) and norm(t.value) == 'self' and not t.attr.endswith('_cb') for t in tg) and \
                                            not (isinstance(x, ast.Assign) and isinstance(x.value, ast.Constant) and x.value.value is None):
                                        late.append('%s (line %d)' % (norm(x)[:40], x.lineno))
            n += 1
            ctx.inst(rule, f, 'result-complete-before-callback', not late, 'stored after the finished-callback has run: %s' % (sorted(set(late)) or 'nothing'))
    return n


def check(ctx):
    m = ctx.model
    nb = complete_before_callback_rules(ctx, 'R2', [p_ for p_ in MEM_PATHS if m.exists(p_)])
    ctx.need(nb >= 8, 'finished-callback sites: expected at least 8 functions, found %d' % nb)

    # =========================== R1 / R2: EEPROM ======================================
    wr = m.func(I2C, 'I2CElement.write_data')
    rd = m.func(I2C, 'I2CElement.new_data')
    tok = fold_in(wr, ast.Name(id='EEPROM_TOKEN', ctx=ast.Load()))
    ctx.need(isinstance(tok, bytes), 'EEPROM_TOKEN not foldable')
    g = cfg_of(wr)
    tuples = {}
    for n in [n for n in g.nodes if n.kind == 'stmt' and isinstance(n.ast, ast.Assign) and norm(n.ast.targets[0]) == 'data' and isinstance(n.ast.value, ast.Tuple)]:
        ver = 0 if fact_key("self.elements['version'] == 0", True) in g.fact_keys_at(n) else 1
        tuples[ver] = [norm(e) for e in n.ast.value.elts]
    fm = {}
    for c in packs(wr):
        n = g.nodes_containing(c)
        if n and len(c.args) == 2 and isinstance(c.args[1], ast.Starred):
            ver = 0 if fact_key("self.elements['version'] == 0", True) in g.fact_keys_at(n[0]) else 1
            fm[ver] = fold_in(wr, c.args[0])
    names = ["self.elements['radio_channel']", "self.elements['radio_speed']", "self.elements['pitch_trim']", "self.elements['roll_trim']"]
    ctx.inst('R1', wr, 'v0-fields', fm.get(0) == '<BBBff' and tuples.get(0) == ['0'] + names, 'v0 image: <BBBff of (0, channel, speed, pitch, roll); found %s %s' % (fm.get(0), tuples.get(0)))
    ctx.inst('R1', wr, 'v1-fields', fm.get(1) == '<BBBffBI' and tuples.get(1) == ['1'] + names + ["self.elements['radio_address'] >> 32", "self.elements['radio_address'] & 4294967295"],
             'v1 image: <BBBffBI of (1, channel, speed, pitch, roll, address>>32, address&0xFFFFFFFF); found %s %s' % (fm.get(1), tuples.get(1)))
    body = [norm(s) for s in wr.node.body]
    i_tok = body.index('image = EEPROM_TOKEN + image') if 'image = EEPROM_TOKEN + image' in body else -1
    i_sum = body.index("image += struct.pack('B', self._checksum256(image))") if "image += struct.pack('B', self._checksum256(image))" in body else -1
    # the image handed to the memory, followed back through however it is assembled: token, fields, then one byte = checksum256 of
    # everything before it
    img = byte_image(wr, lambda c: method_call(c, 'write') and norm(c.func.value) == 'self.mem_handler')
    if img:
        okimg = True
        for conds_, pieces in img.items():
            if not any(t_ == "self.elements['version'] == %d" % v_ and pol_ for v_ in (0, 1) for t_, pol_ in conds_):
                continue                                   # (an unknown version writes no fields; not part of the claim)
            okimg = okimg and len(pieces) == 3 and pieces[0] == 'token(EEPROM_TOKEN)' and pieces[1].startswith('pack(') and \
                pieces[2].startswith('byte(self._checksum256(') and pieces[2].endswith('[%s])' % ' ++ '.join(pieces[:2]))
        ctx.inst('R1', wr, 'token-then-checksum', okimg, 'image = token, fields, checksum256(token + fields) as the last byte; images %s' % {k: v for k, v in list(img.items())[:2]})
    else:
        ctx.inst('R1', wr, 'token-then-checksum', 0 <= i_tok < i_sum, 'token is prepended, then the checksum over token+fields is appended as the last byte')
    gr = cfg_of(rd)
    ups = unpacks(rd)
    u0 = [c for c in ups if fold_in(rd, c.args[0]) == '<BBBff']
    ok = len(u0) == 1 and sl(u0[0].args[1], rd) == (rd.params[3], len(tok), len(tok) + struct.calcsize('<BBBff'))
    ctx.inst('R1', rd, 'reader-v0-slice', ok, 'fields are read with <BBBff from data[%d:%d]' % (len(tok), len(tok) + 11))
    dst = [s for s in walk_own(rd.node) if isinstance(s, ast.Assign) and u0 and s.value is u0[0]]
    got = [norm(e) for e in dst[0].targets[0].elts] if dst and isinstance(dst[0].targets[0], (ast.List, ast.Tuple)) else []
    ctx.inst('R1', rd, 'reader-v0-order', got == ["self.elements['version']"] + names, 'reader destinations %s must mirror the writer order' % got)
    tk = gr.find(lambda n: isinstance(n, ast.Compare) and 'EEPROM_TOKEN' in norm(n))
    ctx.inst('R1', rd, 'reader-token', len(tk) == 1 and canon_test(tk[0][1]) == fact_key('%s[0:%d] == EEPROM_TOKEN' % (rd.params[3], len(tok)))[0], 'token compared on data[0:%d]' % len(tok))
    u1 = [c for c in ups if fold_in(rd, c.args[0]) == '<BI']
    ok = len(u1) == 1 and norm(u1[0].args[1]) == 'self.datav0[15:16] + %s[0:4]' % rd.params[3]
    ctx.inst('R1', rd, 'reader-v1-address-bytes', ok, 'address = byte 15 of the first read + 4 bytes of the second read')
    rr = [c for c in walk_own(rd.node) if method_call(c, 'read') and norm(c.func.value) == 'self.mem_handler']
    tot = len(tok) + struct.calcsize('<BBBffBI') + 1
    ok = len(rr) == 1 and [fold_in(rd, a) for a in rr[0].args[1:]] == [16, tot - 16]
    ctx.inst('R1', rd, 'reader-v1-second-read', ok, 'second read must fetch the remaining %d bytes from address 16' % (tot - 16))
    up = m.func(I2C, 'I2CElement.update')
    r0 = [c for c in walk_own(up.node) if method_call(c, 'read')]
    ctx.inst('R1', up, 'first-read', len(r0) == 1 and [fold_in(up, a) for a in r0[0].args[1:]] == [0, len(tok) + struct.calcsize('<BBBff') + 1], 'first read = 16 bytes (complete v0 image)')
    ad = [s for s in walk_own(rd.node) if isinstance(s, ast.Assign) and norm(s.targets[0]) == "self.elements['radio_address']"]
    if ad:
        v = ad[0].value
        if isinstance(v, ast.BinOp):
            ab = B_.evaluate(v, Scope.of(rd), {'int(radio_address_upper)': 'hi', 'radio_address_upper': 'hi', 'radio_address_lower': 'lo'}, {'hi': 8, 'lo': 32})
            ctx.inst('R1', rd, 'address-assembly', B_.is_input_field(ab, 32, 8, 'hi') and B_.is_input_field(ab, 0, 32, 'lo'), 'address = upper << 32 | lower; bits %s...' % B_.describe(ab, 40)[:60])
    # R2
    vt = [n for n in gr.nodes if n.kind == 'stmt' and isinstance(n.ast, ast.Assign) and norm(n.ast.targets[0]) == 'self.valid' and norm(n.ast.value) == 'True']
    ctx.need(len(vt) == 1, 'I2CElement.new_data: valid = True not found')
    d = rd.params[3]
    want = fact_key('self._checksum256(%s[:len(%s) - 1]) == %s[len(%s) - 1]' % (d, d, d, d), True)
    alt = fact_key('self._checksum256(%s[:-1]) == %s[-1]' % (d, d), True)
    keys = gr.fact_keys_at(vt[0])
    ctx.inst('R2', rd, 'eeprom-valid-iff-checksum', want in keys or alt in keys, 'valid = True only when checksum(all but last byte) == last byte; guards %s' % sorted(keys))
    # ... and ONLY the checksum: once a matching checksum made the image valid nothing on the way to the completion callback may take
    # that back (a plausibility test on the fields rejects images that were written correctly)
    unv = [n for n in gr.nodes if n.kind == 'stmt' and isinstance(n.ast, (ast.Assign, ast.AugAssign)) and n is not vt[0] and
           norm(n.ast.targets[0] if isinstance(n.ast, ast.Assign) else n.ast.target) == 'self.valid' and gr.path_avoiding(vt[0], [n], avoid=[]) is not None]
    ctx.inst('R2', rd, 'eeprom-valid-not-revoked', not unv, 'self.valid is written again after the checksum made it True (line %s): a correctly written image is reported invalid' %
             (unv[0].line if unv else None))
    ck = m.func(I2C, 'I2CElement._checksum256')
    rs = [norm(s.value) for s in walk_own(ck.node) if isinstance(s, ast.Return)]
    ctx.inst('R2', ck, 'checksum=sum%256', rs in (['reduce(lambda x, y: x + y, list(%s)) %% 256' % ck.params[1]], ['reduce(lambda x, y: x + y, %s) %% 256' % ck.params[1]], ['sum(%s) %% 256' % ck.params[1]], ['reduce(operator.add, %s) %% 256' % ck.params[1]], ['reduce(operator.add, list(%s)) %% 256' % ck.params[1]]), 'checksum is the byte sum modulo 256; returns %s' % rs)
    # the completion callback of an update is one-shot on every branch, the refused-header branch included
    one_shot_callback_rules(ctx, 'R2', m.func(OW, 'OWElement.new_data'), '_update_finished_cb')
    one_shot_callback_rules(ctx, 'R2', rd, '_update_finished_cb')
    for path, qual in ((I2C, 'I2CElement.update'), (OW, 'OWElement.update')):
        f = m.func(path, qual)
        st = [norm(s) for s in walk_own(f.node) if isinstance(s, ast.Assign)]
        ctx.inst('R2', f, 'update-invalidates', 'self.valid = False' in st, 'update() must reset valid before reading')
    cat = [s for s in walk_own(rd.node) if isinstance(s, ast.Assign) and norm(s.targets[0]) == d and norm(s.value) == 'self.datav0 + %s' % d]
    ctx.inst('R2', rd, 'v1-checksum-over-whole-image', len(cat) == 1, 'for v1 the checksum is taken over first read + second read')
    # ... and over nothing but the bytes of this update: the buffer that is checked is the reply itself, extended only by the first
    # read of the same update; the verdict is reached only for a complete v0 image or after the second read (a remembered "verified"
    # image for an unchanged first half skips the bytes that may have been corrupted since)
    reb = [norm(n_.ast.value) for n_ in gr.nodes if n_.kind == 'stmt' and isinstance(n_.ast, (ast.Assign, ast.AugAssign)) and
           norm(n_.ast.targets[0] if isinstance(n_.ast, ast.Assign) else n_.ast.target) == d]
    dn_ = [n_ for n_ in gr.nodes if n_.kind == 'stmt' and isinstance(n_.ast, ast.Assign) and norm(n_.ast.targets[0]) == 'done' and norm(n_.ast.value) == 'True']
    okd = bool(dn_) and all(fact_key("self.elements['version'] == 0", True) in gr.fact_keys_at(n_) or fact_key('addr == 16', True) in gr.fact_keys_at(n_) for n_ in dn_)
    ctx.inst('R2', rd, 'verdict-on-bytes-of-this-read', all(v_ == 'self.datav0 + %s' % d for v_ in reb) and okd,
             'checked buffer re-bound as %s; the image counts as complete under %s' % (reb, [sorted(k_[0] for k_ in gr.fact_keys_at(n_))[-2:] for n_ in dn_]))

    # =========================== R2 / R3 / R4: 1-wire ======================================
    ow_w = m.func(OW, 'OWElement.write_data')
    hdr = m.func(OW, 'OWElement._parse_and_check_header')
    par = m.func(OW, 'OWElement._parse_and_check_elements')
    nd = m.func(OW, 'OWElement.new_data')
    pw = packs(ow_w)
    h = [c for c in pw if fold_in(ow_w, c.args[0]) == '<BIBB']
    ok = len(h) == 1 and [norm(a) for a in h[0].args[1:]] == ['235', 'self.pins', 'self.vid', 'self.pid']
    ctx.inst('R3', ow_w, 'header-writer', ok, 'header = <BIBB of (0xEB, pins, vid, pid); found %s' % [norm(c) for c in h])
    uh = unpacks(hdr)
    okr = len(uh) == 1 and fold_in(hdr, uh[0].args[0]) == '<BIBBB'
    dsts = [s for s in walk_own(hdr.node) if isinstance(s, ast.Assign) and uh and s.value is uh[0]]
    got = [norm(e) for e in dsts[0].targets[0].elts] if dsts and isinstance(dsts[0].targets[0], ast.Tuple) else []
    ctx.inst('R3', hdr, 'header-reader', okr and got == ['start', 'self.pins', 'self.vid', 'self.pid', 'crc'], 'header read with <BIBBB into (start, pins, vid, pid, crc); found %s' % got)
    st = [norm(s) for s in ow_w.node.body]
    ctx.inst('R3', ow_w, 'header-crc', 'header_crc = crc32(header_data) & 255' in st and "header_data += struct.pack('B', header_crc)" in st, 'header CRC = crc32(header) & 0xff appended as byte 7')
    gh = cfg_of(hdr)
    rt = [n for n in gh.nodes if n.kind == 'return' and norm(n.ast.value) == 'True']
    ks = gh.fact_keys_at(rt[0]) if rt else set()
    tc = [s for s in walk_own(hdr.node) if isinstance(s, ast.Assign) and norm(s.targets[0]) == 'test_crc']
    ctx.inst('R2', hdr, 'ow-header-valid', len(rt) == 1 and fact_key('start == 235', True) in ks and fact_key('crc == test_crc', True) in ks and
             len(tc) == 1 and norm(tc[0].value) == 'crc32(%s[:-1]) & 255' % hdr.params[1], 'header accepted only with start 0xEB and crc == crc32(all but last) & 0xff')
    gp = cfg_of(par)
    d = par.params[1]
    stp = {norm(s.targets[0]): norm(s.value) for s in sorted([s for s in walk_own(par.node) if isinstance(s, ast.Assign)], key=lambda s: s.lineno) if isinstance(s.targets[0], ast.Name)}
    rt = [n for n in gp.nodes if n.kind == 'return' and norm(n.ast.value) == 'True']
    ok = len(rt) == 1 and fact_key('test_crc == crc', True) in gp.fact_keys_at(rt[0]) and stp.get('crc') == '%s[-1]' % d and stp.get('test_crc') == 'crc32(%s[:-1]) & 255' % d
    if not ok and len(rt) == 1:
        # the same test under other names, or written out: the tests that guard `return True`, with the locals read through
        crc_a, crc_b = 'crc32(%s[:-1]) & 255' % d, '%s[-1]' % d
        for k_ in gp.fact_keys_at(rt[0]):
            try:
                e_ = ast.parse(k_[0], mode='eval').body
            except SyntaxError:
                continue
            if isinstance(e_, ast.Compare) and len(e_.ops) == 1 and isinstance(e_.ops[0], (ast.Eq, ast.NotEq)):
                sides = {norm(gp.expand_locals(rt[0], e_.left, stable=True)), norm(gp.expand_locals(rt[0], e_.comparators[0], stable=True))}
                if sides == {crc_a, crc_b} and k_[1] == isinstance(e_.ops[0], ast.Eq):
                    ok = True
    ctx.inst('R2', par, 'ow-elements-valid', ok, 'elements accepted only with last byte == crc32(all but last) & 0xff')
    lp = [w for w in walk_own(par.node) if isinstance(w, ast.While)]
    okw = len(lp) == 1 and norm(lp[0].test) == 'len(elem_data) > 0'
    bd = [norm(s) for s in lp[0].body] if lp else []
    okw = okw and bd == ["eid, elen = struct.unpack('BB', elem_data[:2])", "self.elements[self.element_mapping[eid]] = elem_data[2:2 + elen].decode('ISO-8859-1')", 'elem_data = elem_data[2 + elen:]']
    area = None
    if not okw and len(lp) == 1:
        area = tlv_by_offset(par, lp[0])
        okw = bool(area)
        if area:
            area = norm(gp.expand_locals(gp.nodes_containing(lp[0].test)[0], ast.parse(area, mode='eval').body, stable=True)) if gp.nodes_containing(lp[0].test) else area
    ctx.inst('R3', par, 'tlv-walk', okw, 'TLV walk: (id, len) from 2 bytes, value of len bytes, advance 2 + len; body %s' % bd)
    ctx.inst('R3', par, 'tlv-area', 'elem_data = %s[2:-1]' % d in [norm(s) for s in walk_own(par.node) if isinstance(s, ast.Assign)] or area == '%s[2:-1]' % d, 'TLVs lie between the 2-byte (version, length) prefix and the CRC')
    wl = [l for l in walk_own(ow_w.node) if isinstance(l, ast.For)]
    wb = [norm(s) for s in wl[0].body] if wl else []
    owimg = byte_image(ow_w, lambda c: method_call(c, 'write') and norm(c.func.value) == 'self.mem_handler')
    if owimg and len(owimg) == 1:
        import re as _re
        pieces = list(owimg.values())[0]
        each_re = _re.compile(r"^each\((\w+) in reversed\(list\(self\.elements\.keys\(\)\)\): pack\(BB; self\._rev_element_mapping\[\1\], len\((\w+)\)\) \+\+ enc\(\2\.encode\('ISO-8859-1'\)\)\)$")
        each = [p_ for p_ in pieces if p_.startswith('each(')]
        okt = len(each) == 1 and each_re.match(each[0]) is not None
        if okt:
            sv_ = each_re.match(each[0]).group(2)
            okt = any(isinstance(s_, ast.Assign) and norm(s_.targets[0]) == sv_ and norm(s_.value) == 'self.elements[%s]' % each_re.match(each[0]).group(1) for s_ in walk_own(ow_w.node))
        ctx.inst('R3', ow_w, 'tlv-writer', okt, 'each element written as (id, len) then the bytes; found %s' % each[:1])
        oka = len(pieces) == 5 and each and pieces[3] == each[0] and _re.match(r'^pack\(BB; 0, len\(\w+\)\[', pieces[2]) is not None and pieces[2].endswith('[%s])' % each[0]) and \
            _re.match(r'^byte\(crc32\(\w+\) & 255\[', pieces[4]) is not None and pieces[4].endswith('[%s])' % ' ++ '.join(pieces[2:4])) and \
            pieces[0].startswith('pack(<BIBB; 235,') and _re.match(r'^byte\(crc32\(\w+\) & 255\[', pieces[1]) is not None and pieces[1].endswith('[%s])' % pieces[0])
        ctx.inst('R3', ow_w, 'area-writer', bool(oka), 'image = header, crc(header), then element area (0, len) + TLVs + crc32(area) & 0xff; pieces %s' % [p_[:40] for p_ in pieces])
    else:
      ctx.inst('R3', ow_w, 'tlv-writer', len(wl) == 1 and "elem += struct.pack('BB', key_encoding, len(elem_string))" in wb and "elem += bytearray(elem_string.encode('ISO-8859-1'))" in wb and
             wb.index("elem += struct.pack('BB', key_encoding, len(elem_string))") < wb.index("elem += bytearray(elem_string.encode('ISO-8859-1'))"), 'each element written as (id, len) then the bytes')
      ctx.inst('R3', ow_w, 'area-writer', all(x in st for x in ["elem_data = struct.pack('BB', 0, len(elem))", 'elem_data += elem', 'elem_crc = crc32(elem_data) & 255', "elem_data += struct.pack('B', elem_crc)",
                                                              'data = header_data + elem_data']), 'element area = (0, len) + TLVs + crc32(area) & 0xff, placed right after the header')
    km = fold_in(ow_w, m.cls(OW, 'OWElement').consts['element_mapping'])
    ctx.inst('R3', (OW, 'OWElement'), 'element-ids', km == {1: 'Board name', 2: 'Board revision', 3: 'Custom'}, 'element id table %s' % (km,))
    # R4
    hs = struct.calcsize('<BIBBB')
    gn = cfg_of(nd)
    vt = [n for n in gn.nodes if n.kind == 'stmt' and isinstance(n.ast, ast.Assign) and norm(n.ast.targets[0]) == 'self.valid' and norm(n.ast.value) == 'True']
    okv = bool(vt) and all(any(f.pol and isinstance(f.node, ast.Call) and method_call(f.node, '_parse_and_check_elements') for f in gn.facts_at(n)) for n in vt)
    ctx.inst('R2', nd, 'ow-valid-only-after-element-check', okv, 'the 1-wire image becomes valid only on a path where _parse_and_check_elements(...) returned true (both the one-read and the two-read case)')
    dn = nd.params[3]
    for n, c in gn.find(lambda q: method_call(q, '_parse_and_check_elements')):
        keys = {f.key() for f in gn.facts_at_expr(n, c)}
        a = c.args[0]
        if fact_key('addr == 0', True) in keys:
            s_ = sl(a, nd)
            ok = s_ is not None and s_[0] == dn and s_[1] == hs
            ctx.inst('R4', nd, 'element-buffer-offset', ok, 'in the first read the element area starts at offset %d (header size); the parser is given %s' % (hs, norm(a)), line=n.line)
            ctx.inst('R4', nd, 'shortcut-needs-empty-area', fact_key('elem_len == 0', True) in keys and s_ is not None and s_[2] == hs + 3,
                     'a verdict without the second read is sound only for announced length 0 and the complete 3-byte area data[%d:%d]; guards %s' % (hs, hs + 3, sorted(keys)), line=n.line)
        else:
            ctx.inst('R4', nd, 'second-read-whole-buffer', norm(a) == dn and fact_key('addr == 8', True) in keys, 'the second read (address %d) is parsed as a whole' % hs, line=n.line)
    rr = [c for c in walk_own(nd.node) if method_call(c, 'read') and norm(c.func.value) == 'self.mem_handler']
    ok = len(rr) == 1 and [norm(a) for a in rr[0].args[1:]] == ['8', 'elem_len + 3']
    ln = [s for s in walk_own(nd.node) if isinstance(s, ast.Assign) and 'elem_len' in norm(s.targets[0])]
    # (elem_ver, elem_len) = unpack(..)  or  elem_len = unpack(..)[1]: the length is the SECOND byte of the pair
    okl = len(ln) == 1 and ((norm(ln[0].value) == "struct.unpack('BB', %s[8:10])" % dn and isinstance(ln[0].targets[0], (ast.Tuple, ast.List)) and
                             len(ln[0].targets[0].elts) == 2 and norm(ln[0].targets[0].elts[1]) == 'elem_len') or
                            (norm(ln[0].targets[0]) == 'elem_len' and norm(ln[0].value) == "struct.unpack('BB', %s[8:10])[1]" % dn))
    ok = ok and okl
    ctx.inst('R4', nd, 'second-read-covers-area', ok, 'second read = (8, announced length + version + length + crc bytes)')

    # =========================== R5: lighthouse memory ========================================
    G = m.cls(LH, 'LighthouseBsGeometry')
    C = m.cls(LH, 'LighthouseBsCalibration')
    gw = G.method('add_mem_data')
    seq = [norm(s.value) if isinstance(s, ast.Expr) else norm(s) for s in effective(gw.node.body)]
    dv = gw.params[1]
    ctx.inst('R5', gw, 'geo-writer-order', seq == ['self._add_vector(%s, self.origin)' % dv, 'self._add_vector(%s, self.rotation_matrix[0])' % dv, 'self._add_vector(%s, self.rotation_matrix[1])' % dv,
                                                  'self._add_vector(%s, self.rotation_matrix[2])' % dv, "%s += struct.pack('<?', self.valid)" % dv], 'geometry image = origin, rotation rows 0..2, valid; found %s' % seq)
    av = G.method('_add_vector')
    pk = packs(av)
    ctx.inst('R5', av, 'vector-writer', len(pk) == 1 and [norm(a) for a in pk[0].args] == ["'<fff'", '%s[0]' % av.params[2], '%s[1]' % av.params[2], '%s[2]' % av.params[2]], 'vector = <fff of components 0,1,2')
    rv = G.method('_read_vector')
    ur = unpacks(rv)
    rets = [norm(s.value) for s in walk_own(rv.node) if isinstance(s, ast.Return)]
    ctx.inst('R5', rv, 'vector-reader', len(ur) == 1 and fold_in(rv, ur[0].args[0]) == '<fff' and (rets == ['[x, y, z]'] or rets == ['list(%s)' % norm(ur[0])]), 'vector read with <fff into [x, y, z] (the three values in order, as a list)')
    gs = G.method('set_from_mem_data')
    SV = fold_in(gs, ast.parse('self.SIZE_VECTOR', mode='eval').body)
    st = {norm(s.targets[0]): s.value for s in walk_own(gs.node) if isinstance(s, ast.Assign)}
    ok = SV == 12
    slices = []
    for c in [c for c in ast.walk(gs.node) if isinstance(c, ast.Call) and method_call(c, '_read_vector')]:
        slices.append(sl(c.args[0], gs)[1:])
    slices.sort()
    ctx.inst('R5', gs, 'geo-reader-slices', ok and slices == [(0, 12), (12, 24), (24, 36), (36, 48)] and norm(st['self.origin']).startswith('self._read_vector(%s[0 *' % gs.params[1]),
             'vectors are read from [0:12],[12:24],[24:36],[36:48]; found %s' % slices)
    rm = st.get('self.rotation_matrix')
    okm = isinstance(rm, ast.List) and [sl(e.args[0], gs)[1:] for e in rm.elts] == [(12, 24), (24, 36), (36, 48)]
    ctx.inst('R5', gs, 'geo-reader-rows', okm, 'rotation rows 0..2 come from the 2nd..4th vector in order')
    vv = st.get('self.valid')
    okv = vv is not None and norm(vv).startswith("struct.unpack('<?', ") and sl(vv.value.args[1], gs)[1:] == (48, None)
    ctx.inst('R5', gs, 'geo-reader-valid', okv, 'valid flag read with <? from byte 48')
    ctx.inst('R5', (LH, 'LighthouseBsGeometry'), 'geo-size', fold_in(gs, ast.parse('self.SIZE_GEOMETRY', mode='eval').body) == 4 * struct.calcsize('<fff') + struct.calcsize('<?'),
             'SIZE_GEOMETRY must equal 4 vectors + flag = 49')
    sweep = ['phase', 'tilt', 'curve', 'gibmag', 'gibphase', 'ogeemag', 'ogeephase']
    pw_ = C.method('_pack_sweep_calib')
    pk = packs(pw_)
    ctx.inst('R5', pw_, 'sweep-writer', len(pk) == 1 and [norm(a) for a in pk[0].args] == ["'<fffffff'"] + ['%s.%s' % (pw_.params[2], x) for x in sweep], 'sweep = <fffffff of %s' % sweep)
    us = C.method('_unpack_sweep_calibration')
    uu = unpacks(us)
    dd = [s for s in walk_own(us.node) if isinstance(s, ast.Assign) and uu and s.value is uu[0]]
    got = [norm(e) for e in dd[0].targets[0].elts] if dd else []
    ctx.inst('R5', us, 'sweep-reader', len(uu) == 1 and fold_in(us, uu[0].args[0]) == '<fffffff' and got == ['result.%s' % x for x in sweep], 'sweep read into %s' % got)
    cw = C.method('add_mem_data')
    seq = [norm(s.value) if isinstance(s, ast.Expr) else norm(s) for s in effective(cw.node.body)]
    dv = cw.params[1]
    ctx.inst('R5', cw, 'calib-writer-order', seq == ['self._pack_sweep_calib(%s, self.sweeps[0])' % dv, 'self._pack_sweep_calib(%s, self.sweeps[1])' % dv, "%s += struct.pack('<L?', self.uid, self.valid)" % dv],
             'calibration image = sweep 0, sweep 1, uid, valid; found %s' % seq)
    cs = C.method('set_from_mem_data')
    st = {norm(s.targets[0]): s.value for s in walk_own(cs.node) if isinstance(s, ast.Assign)}
    ok = all(k in st for k in ('self.sweeps[0]', 'self.sweeps[1]', '(self.uid, self.valid)'))
    if ok:
        ok = sl(st['self.sweeps[0]'].args[0], cs)[1:] == (0, 28) and sl(st['self.sweeps[1]'].args[0], cs)[1:] == (28, 56) and \
            fold_in(cs, st['(self.uid, self.valid)'].args[0]) == '<L?' and sl(st['(self.uid, self.valid)'].args[1], cs)[1:] == (56, None)
    ctx.inst('R5', cs, 'calib-reader', ok, 'calibration read: sweeps from [0:28],[28:56], (uid, valid) with <L? from 56')
    ctx.inst('R5', (LH, 'LighthouseBsCalibration'), 'calib-size', fold_in(cs, ast.parse('self.SIZE_CALIBRATION', mode='eval').body) == 2 * struct.calcsize('<fffffff') + struct.calcsize('<L?'),
             'SIZE_CALIBRATION must equal 2 sweeps + uid + flag = 61')
    Mm = m.cls(LH, 'LighthouseMemory')
    for kind, start, size in (('geo', 'self.GEO_START_ADDR', 'LighthouseBsGeometry.SIZE_GEOMETRY'), ('calib', 'self.CALIB_START_ADDR', 'LighthouseBsCalibration.SIZE_CALIBRATION')):
        r = Mm.method('read_%s_data' % kind)
        w = Mm.method('write_%s_data' % kind)
        rc = [c for c in walk_own(r.node) if method_call(c, 'read')]
        wc = [c for c in walk_own(w.node) if method_call(c, 'write')]
        addr = '%s + bs_id * self.PAGE_SIZE' % start
        wa = {norm(s.targets[0]): norm(s.value) for s in walk_own(w.node) if isinstance(s, ast.Assign)}
        ok = len(rc) == 1 and [norm(a) for a in rc[0].args[1:]] == [addr, size] and len(wc) == 1 and wa.get(norm(wc[0].args[1]), norm(wc[0].args[1])) == addr
        ctx.inst('R5', r, 'page-address:' + kind, ok, 'read and write of %s data use START + bs_id * PAGE_SIZE and the image size constant' % kind)
    nd2 = Mm.method('new_data')
    g2 = cfg_of(nd2)
    for n, c in g2.find(lambda q: method_call(q, 'set_from_mem_data')):
        # the object that decodes the reply: one constructor per address range (bound in the branch, decoded there or after it)
        rcv = c.func.value
        for d in (g2.reaching_defs(n, rcv.id) if isinstance(rcv, ast.Name) else []):
            geo = fact_key('addr < self.CALIB_START_ADDR', True) in g2.fact_keys_at(d)
            other = fact_key('addr < self.CALIB_START_ADDR', False) in g2.fact_keys_at(d)
            dv = g2.def_value(d, rcv.id)
            ctx.inst('R5', nd2, 'reply-kind:' + ('geo' if geo else 'calib'), (geo or other) and dv is not None and norm(dv) == ('LighthouseBsGeometry()' if geo else 'LighthouseBsCalibration()'),
                     'addresses below CALIB_START are geometry, others calibration; decoder bound as %s' % (norm(dv) if dv is not None else None))

    # the helpers around the memories: a dictionary handed to the writer is uploaded from a copy, never emptied (shared generic rule)
    consumed_argument_rules(ctx, 'R5', [LH])
    # =========================== R6: YAML ===================================================
    for cname in ('LighthouseBsGeometry', 'LighthouseCalibrationSweep', 'LighthouseBsCalibration'):
        K = m.cls(LH, cname)
        af = K.method('as_file_object')
        ff = K.method('from_file_object')
        wd = [d for d in ast.walk(af.node) if isinstance(d, ast.Dict)]
        ctx.need(len(wd) >= 1, '%s.as_file_object: dict not found' % cname)
        wk = {norm(k).split('.')[-1]: norm(v) for k, v in zip(wd[0].keys, wd[0].values)}
        rk = {}
        for s in walk_own(ff.node):
            if isinstance(s, ast.Assign):
                for x in ast.walk(s.value):
                    if isinstance(x, ast.Subscript) and norm(x.value) == ff.params[1]:
                        rk[norm(x.slice).split('.')[-1]] = norm(s.targets[0])
        ctx.inst('R6', af, 'yaml-keys:' + cname, set(wk) == set(rk) and len(wk) >= 2, 'keys written %s vs keys read %s' % (sorted(wk), sorted(rk)))
        # key <-> attribute: FILE_ID_X written from self.<a> must be read into result.<a> (sweeps via a local)
        okm = True
        for k, v in wk.items():
            if v.startswith('self.') and '[' not in v and '(' not in v:
                okm = okm and rk.get(k) in ('result.' + v[len('self.'):], 'sweeps')
        ctx.inst('R6', af, 'yaml-key-attr:' + cname, okm, 'each key is written from and read into the same attribute: %s / %s' % (wk, rk))
        ids = {k: fold_in(af, v) for k, v in K.consts.items() if k.startswith('FILE_ID_')}
        ctx.inst('R6', (LH, cname), 'yaml-key-strings-distinct:' + cname, len(set(ids.values())) == len(ids), 'key strings must be distinct: %s' % ids)
    for path, cname, payload_keys in ((CFGM, 'LighthouseConfigFileManager', ['GEOS_ID', 'CALIBS_ID', 'SYSTEM_TYPE_ID']), (PIO, 'ParamFileManager', ['PARAMS_ID'])):
        K = m.cls(path, cname)
        w, r = K.method('write'), K.method('read')
        wd = [d for d in ast.walk(w.node) if isinstance(d, ast.Dict) and any('TYPE_ID' in norm(k) for k in d.keys if k is not None)]
        ctx.need(len(wd) == 1, '%s.write: envelope dict not found' % cname)
        env = {norm(k).split('.')[-1]: norm(v).split('.')[-1] for k, v in zip(wd[0].keys, wd[0].values)}
        ctx.inst('R6', w, 'envelope-written:' + cname, env.get('TYPE_ID') == 'TYPE' and env.get('VERSION_ID') == 'VERSION' and all(k in env for k in payload_keys), 'envelope written: %s' % env)
        gr_ = cfg_of(r)
        rz = [n for n in gr_.nodes if n.kind == 'raise']
        conds = set()
        for n in rz:
            for k in gr_.fact_keys_at(n):
                conds.add((k[0].replace(cname + '.', ''), k[1]))
        want = {('TYPE_ID in data', False), ('TYPE == data[TYPE_ID]', False), ('VERSION_ID in data', False), ('VERSION == data[VERSION_ID]', False)}
        want2 = {('TYPE_ID in data', False), ('data[TYPE_ID] == TYPE', False), ('VERSION_ID in data', False), ('data[VERSION_ID] == VERSION', False)}
        ctx.inst('R6', r, 'envelope-checked:' + cname, want <= conds or want2 <= conds, 'read must reject a missing/wrong type and version; raise guards %s' % sorted(conds))
        used = {norm(x.slice).split('.')[-1] for x in ast.walk(r.node) if isinstance(x, ast.Subscript) and norm(x.value) == 'data'} | \
            {norm(x.args[0]).split('.')[-1] for x in ast.walk(r.node) if method_call(x, 'get') and norm(x.func.value) == 'data' and x.args}      # data[K] or data.get(K, default)
        ctx.inst('R6', r, 'payload-keys-read:' + cname, all(k in used for k in payload_keys), 'payload keys read: %s' % sorted(used))
    w = m.func(PIO, 'ParamFileManager.write')
    r = m.func(PIO, 'ParamFileManager.read')
    wd = [d for d in ast.walk(w.node) if isinstance(d, ast.Dict) and any(isinstance(k, ast.Constant) and k.value == 'is_stored' for k in d.keys)]
    wk = {k.value: norm(v) for k, v in zip(wd[0].keys, wd[0].values)} if wd else {}
    ctor = [c for c in ast.walk(r.node) if isinstance(c, ast.Call) and dotted(c.func) == 'PersistentParamState']
    rk = [norm(a) for a in ctor[0].args] if ctor else []
    ctx.inst('R6', w, 'param-state-keys', wk == {'is_stored': 'param.is_stored', 'default_value': 'param.default_value', 'stored_value': 'param.stored_value'} and
             rk == ["param['is_stored']", "param['default_value']", "param['stored_value']"], 'state written %s, rebuilt from %s (namedtuple order is_stored, default_value, stored_value)' % (wk, rk))
    from .c06 import request_released_before_notification
    memk = m.cls('cflib/crazyflie/mem/__init__.py', 'Memory')
    request_released_before_notification(ctx, 'R1', memk.method('_handle_chan_read'), 'self._read_requests', ('self.mem_read_cb.call', 'self.mem_read_failed_cb.call'))      # the second read of a two-part image is made from inside new_data (shared with C06.R4)
    pmod = m.mod('cflib/crazyflie/param.py')
    nt = pmod.consts.get('PersistentParamState')
    rewrites = []
    if nt is None and 'PersistentParamState' in pmod.classes:
        # a class on top of the named tuple: the fields are those of its base - and stay what the caller passed only if the class does
        # not construct or read them its own way
        k_ = pmod.cls('PersistentParamState')
        bases = [b_ for b_ in k_.node.bases if isinstance(b_, ast.Call) and dotted(b_.func) in ('namedtuple', 'collections.namedtuple')]
        nt = bases[0] if len(bases) == 1 else None
        rewrites = sorted(n_ for n_ in k_.methods if n_ in ('__new__', '__init__', '__getattribute__', '__getattr__', '__iter__', '__getitem__', '_replace', '_asdict') or
                          n_ in ('is_stored', 'default_value', 'stored_value'))
    ctx.need(isinstance(nt, ast.Call) and len(nt.args) >= 2, 'PersistentParamState: named tuple definition not found')
    pt = fold_in(m.func('cflib/crazyflie/param.py', 'Param.__init__'), nt.args[1])
    ctx.inst('R6', ('cflib/crazyflie/param.py', ''), 'param-state-order', pt == 'is_stored default_value stored_value', 'PersistentParamState fields: %s' % pt)
    ctx.inst('R6', ('cflib/crazyflie/param.py', ''), 'param-state-is-a-plain-record', not rewrites,
             'PersistentParamState holds the three values it was given (a file round trip rebuilds it from them); it redefines %s' % rewrites)

    # =========================== R8: write-only LED timing image (shared with C13.R5) ==========
    from .c13 import led_timing_rules
    led_timing_rules(ctx, 'R8')

    # =========================== R9: write-only trajectory images (shared with C13.R4) ==========
    from .c13 import trajectory_rules
    trajectory_rules(ctx, 'R9')

    # =========================== R7: deck info / loco ============================================
    D = m.cls(DK, 'DeckMemory')
    Mg = m.cls(DK, 'DeckMemoryManager')
    ps = D.method('_parse')
    uu = unpacks(ps)
    f1 = [c for c in uu if fold_in(ps, c.args[0]) == '<BB']
    f2 = [c for c in uu if fold_in(ps, c.args[0]) == '<LLL18s']
    ctx.inst('R7', ps, 'info-bitfields', len(f1) == 1 and sl(f1[0].args[1], ps) == (ps.params[1], 0, 2), 'bit fields are bytes 0..1')
    ctx.inst('R7', ps, 'info-body', len(f2) == 1 and sl(f2[0].args[1], ps) == (ps.params[1], 2, None), 'hash, length, base address, name follow from byte 2 as <LLL18s')
    dd = [s for s in walk_own(ps.node) if isinstance(s, ast.Assign) and f2 and s.value is f2[0]]
    got = [norm(e) for e in dd[0].targets[0].elts] if dd and isinstance(dd[0].targets[0], ast.Tuple) else []
    ctx.inst('R7', ps, 'info-field-order', got == ['self.required_hash', 'self.required_length', 'self._base_address', '_name'], 'destinations %s' % got)
    nm = [s_ for s_ in walk_own(ps.node) if isinstance(s_, ast.Assign) and norm(s_.targets[0]) == 'self.name']
    ctx.need(len(nm) == 1, 'DeckMemory._parse: name extraction not found')
    nt = norm(nm[0].value)
    total_forms = ("_name.split(b'\\x00')[0].decode()", "_name.partition(b'\\x00')[0].decode()", "_name.split(b'\\x00', 1)[0].decode()")
    partial = any(isinstance(c, ast.Call) and isinstance(c.func, ast.Attribute) and c.func.attr in ('index', 'find', 'rindex', 'rfind') and norm(c.func.value) == '_name' for c in ast.walk(nm[0].value))
    if nt not in total_forms and not partial:
        ctx.need(False, 'DeckMemory._parse: name extraction %s not recognised' % nt)
    ctx.inst('R7', ps, 'info-name-total', nt in total_forms, 'the 18-byte name field has no terminator when the name is 18 characters long: the extraction must not depend on finding a NUL '
             '(index() raises -> the deck is dropped as invalid, find() returns -1 -> last character lost); found %s' % nt)
    si = class_const(Mg, 'SIZE_OF_DECK_MEM_INFO')
    ctx.inst('R7', (DK, 'DeckMemoryManager'), 'info-size', si == 2 + struct.calcsize('<LLL18s'), 'SIZE_OF_DECK_MEM_INFO %s must equal 2 + calcsize(<LLL18s) = 32' % si)
    masks1 = {k: fold_in(ps, v) for k, v in D.consts.items() if k.startswith('MASK_') and 'RESET' not in k}
    ctx.inst('R7', (DK, 'DeckMemory'), 'masks-single-distinct-bits', all(isinstance(v, int) and v > 0 and v & (v - 1) == 0 for v in masks1.values()) and len(set(masks1.values())) == len(masks1) == 7,
             'bit-field 1 masks must be seven distinct single bits: %s' % masks1)
    props = {'is_valid': 'MASK_IS_VALID', 'is_started': 'MASK_IS_STARTED', 'supports_read': 'MASK_SUPPORTS_READ', 'supports_write': 'MASK_SUPPORTS_WRITE',
             'supports_fw_upgrade': 'MASK_SUPPORTS_UPGRADE', 'is_fw_upgrade_required': 'MASK_UPGRADE_REQUIRED', 'is_bootloader_active': 'MASK_BOOTLOADER_ACTIVE',
             'supports_reset_to_fw': 'MASK_SUPPORTS_RESET_TO_FW', 'supports_reset_to_bootloader': 'MASK_SUPPORTS_RESET_TO_BOOTLOADER'}
    okp = True
    for pn, mk in props.items():
        f = D.method(pn)
        rs = [norm(s.value) for s in walk_own(f.node) if isinstance(s, ast.Return)]
        bf = '_bit_field2' if 'RESET' in mk else '_bit_field1'
        okp = okp and len(rs) == 1 and canon_test(ast.parse(rs[0], mode='eval').body) == canon_test(ast.parse('self.%s & self.%s != 0' % (bf, mk), mode='eval').body)
    ctx.inst('R7', (DK, 'DeckMemory'), 'mask-properties', okp, 'each property tests its own mask on its own bit field')
    pi = Mg.method('_parse_info_section')
    st = {norm(s.targets[0]): norm(s.value) for s in walk_own(pi.node) if isinstance(s, ast.Assign)}
    ctx.inst('R7', pi, 'info-offsets', st.get('start') == 'self.SIZE_OF_VERSION + self.SIZE_OF_DECK_MEM_INFO * i' and st.get('end') == 'start + self.SIZE_OF_DECK_MEM_INFO' and
             st.get('version') == "struct.unpack('<B', %s[0:1])[0]" % pi.params[1], 'info i occupies [1 + 32 i : 1 + 32 (i+1)] after the version byte')
    ctx.inst('R7', (DK, 'DeckMemoryManager'), 'info-section-size', class_const(Mg, 'SIZE_OF_INFO_SECTION') == 1 + 8 * 32, 'info section = version + 8 infos')
    for path, cname, data_cls in ((LO1, 'LocoMemory', 'AnchorData'), (LO2, 'LocoMemory2', 'AnchorData2')):
        A = m.cls(path, data_cls)
        sf = A.method('set_from_mem_data')
        uu = unpacks(sf)
        plen = 'MEM_LOCO_PAGE_LEN' if cname == 'LocoMemory' else 'PAGE_LEN'
        K = m.cls(path, cname)
        dd = [s for s in walk_own(sf.node) if isinstance(s, ast.Assign) and uu and s.value is uu[0]]
        got = [norm(e) for e in dd[0].targets[0].elts] if dd else []
        # the four fields may be stored directly or through locals (and a conversion to the type the format already gives them)
        stq = {norm(s_.targets[0]): norm_nc(s_.value) for s_ in walk_own(sf.node) if isinstance(s_, ast.Assign) and not (dd and s_ is dd[0])}
        direct = got == ['x', 'y', 'z', 'self.is_valid']
        via = len(got) == 4 and stq.get('self.is_valid') == got[3] and stq.get('self.position') == '(%s, %s, %s)' % tuple(got[:3])
        ok = len(uu) == 1 and fold_in(sf, uu[0].args[0]) == '<fff?' and class_const(K, plen) == struct.calcsize('<fff?') and (direct or via)
        ctx.inst('R7', sf, 'anchor-page:' + cname, ok, 'anchor page = <fff? (x, y, z, valid), page length constant = 13')
        rp = K.method('_request_page')
        rc = [c for c in walk_own(rp.node) if method_call(c, 'read')]
        ctx.inst('R7', rp, 'anchor-read-length:' + cname, len(rc) == 1 and norm(rc[0].args[2]).endswith('.' + plen), 'page reads use the page length constant')
    L2 = m.cls(LO2, 'LocoMemory2')
    ctx.inst('R7', (LO2, 'LocoMemory2'), 'id-list-length', class_const(L2, 'ID_LIST_LEN') == 1 + class_const(L2, 'MAX_NR_OF_ANCHORS'), 'id list = count byte + max ids')
    for fn, lst in (('_handle_id_list_data', 'self.anchor_ids'), ('_handle_active_id_list_data', 'self.active_anchor_ids')):
        f = L2.method(fn)
        lp = [l for l in walk_own(f.node) if isinstance(l, ast.For)]
        cnt = [s for s in walk_own(f.node) if isinstance(s, ast.Assign) and norm_nc(s.value) == '%s[0]' % f.params[1]]
        ok = len(lp) == 1 and len(cnt) == 1 and norm(lp[0].iter) == 'range(%s)' % norm(cnt[0].targets[0]) and [norm_nc(s) for s in lp[0].body] == ['%s.append(%s[1 + %s])' % (lst, f.params[1], norm(lp[0].target))]
        ctx.inst('R7', f, 'id-list-parse', ok, 'ids = data[1 .. count] with count = data[0]')
        # the parser appends: the list has to be emptied by whoever asks for the data, or a second poll reports the old ids followed
        # by the new ones (and calls the result valid)
        nd = L2.method('new_data')
        gnd = cfg_of(nd)
        hc = gnd.find(lambda q, fn=fn: method_call(q, fn))
        adr = None
        if len(hc) == 1:
            for k_ in gnd.fact_keys_at(hc[0][0]):
                sides = k_[0].split(' == ')
                if k_[1] is True and len(sides) == 2 and nd.params[2] in sides:
                    adr = sides[1 - sides.index(nd.params[2])]
        ctx.need(adr is not None, 'LocoMemory2.new_data: address test in front of %s not found' % fn)
        asked = 0
        for q_ in L2.methods.values():
            gq = cfg_of(q_)
            for rn, rcall in gq.find(lambda c_: method_call(c_, 'read') and len(c_.args) >= 2):
                if norm(rcall.args[1]).split('.')[-1] != adr.split('.')[-1]:
                    continue
                asked += 1
                fresh = [n_ for n_ in gq.nodes if n_.kind == 'stmt' and isinstance(n_.ast, ast.Assign) and norm(n_.ast.targets[0]) == lst and norm(n_.ast.value) in ('[]', 'list()')]
                ctx.inst('R7', q_, 'id-list-emptied-before-read:' + lst, any(gq.dominates(n_, rn) for n_ in fresh),
                         '%s is filled by append in %s: %s must empty it before it asks for the list' % (lst, fn, q_.name))
        ctx.need(asked >= 1, 'LocoMemory2: no read of %s found' % adr)


def tlv_by_offset(par, loop):
    """the same walk with a running offset over the unchanged buffer:  p = 0; while p < len(E): id, n = unpack('BB', E[p:p + 2]);
    value = E[p + 2:p + 2 + n]; p = p + 2 + n  (locals on the way are read through; offsets compared as linear forms)"""
    import copy as _copy
    from ..symexpr import canon as _canon
    sc = Scope.of(par)
    t = loop.test
    if not (isinstance(t, ast.Compare) and len(t.ops) == 1 and isinstance(t.ops[0], ast.Lt) and isinstance(t.left, ast.Name) and
            isinstance(t.comparators[0], ast.Call) and norm(t.comparators[0].func) == 'len' and len(t.comparators[0].args) == 1):
        return False
    # the buffer: a local, or an expression over names the loop does not touch (`data[2:-1]` written out at each use)
    pos, buf = t.left.id, norm(t.comparators[0].args[0])
    if any(isinstance(n, ast.Name) and isinstance(n.ctx, ast.Store) and n.id in {x.id for x in ast.walk(t.comparators[0].args[0]) if isinstance(x, ast.Name)} for n in ast.walk(loop)):
        return False
    init = [s_ for s_ in walk_own(par.node) if isinstance(s_, ast.Assign) and norm(s_.targets[0]) == pos and s_.lineno < loop.lineno]
    if not init or fold_in(par, init[-1].value) != 0:
        return False
    env = {}

    class Sub(ast.NodeTransformer):
        def visit_Name(self, n):
            if isinstance(n.ctx, ast.Load) and n.id in env:
                return _copy.deepcopy(env[n.id])
            return n

    def sub(e):
        return Sub().visit(_copy.deepcopy(e))

    def lin(e):
        return _canon(sub(e), sc)
    P = ast.Name(id=pos, ctx=ast.Load())
    head = value = None
    for st in loop.body:
        if isinstance(st, ast.Assign) and len(st.targets) == 1 and isinstance(st.targets[0], ast.Tuple) and isinstance(st.value, ast.Call) and norm(st.value.func) == 'struct.unpack':
            if head is not None or fold_in(par, st.value.args[0]) != 'BB' or len(st.targets[0].elts) != 2 or not all(isinstance(e, ast.Name) for e in st.targets[0].elts):
                return False
            sl = st.value.args[1]
            if not (isinstance(sl, ast.Subscript) and norm(sl.value) == buf and isinstance(sl.slice, ast.Slice) and sl.slice.lower is not None and sl.slice.upper is not None and
                    lin(sl.slice.lower) == _canon(P, sc) and lin(sl.slice.upper) == _canon(ast.parse('%s + 2' % pos, mode='eval').body, sc)):
                return False
            head = (st.targets[0].elts[0].id, st.targets[0].elts[1].id)
        elif isinstance(st, ast.Assign) and len(st.targets) == 1 and isinstance(st.targets[0], ast.Name):
            if st.targets[0].id in (head or ()):
                return False
            env[st.targets[0].id] = sub(st.value)
            continue
        elif isinstance(st, ast.Assign) and len(st.targets) == 1 and isinstance(st.targets[0], ast.Subscript) and \
                norm(sub(st.targets[0])) == 'self.elements[self.element_mapping[%s]]' % (head[0] if head else '?'):
            v = st.value
            if not (isinstance(v, ast.Call) and isinstance(v.func, ast.Attribute) and v.func.attr == 'decode' and [norm(a) for a in v.args] == ["'ISO-8859-1'"] and
                    isinstance(v.func.value, ast.Subscript) and norm(v.func.value.value) == buf and isinstance(v.func.value.slice, ast.Slice)):
                return False
            sl = v.func.value.slice
            if sl.lower is None or sl.upper is None:
                return False
            # positions are relative to the offset the record started at: pos may already have been advanced by now
            start = env.get(pos)
            base = '%s' % pos
            want_lo = _canon(ast.parse('%s + 2' % base, mode='eval').body, sc)
            want_hi = _canon(ast.parse('%s + 2 + %s' % (base, head[1]), mode='eval').body, sc)
            if lin(sl.lower) != want_lo or lin(sl.upper) != want_hi:
                return False
            value = True
        else:
            return False
    if head is None or not value or pos not in env:
        return False
    return _canon(env[pos], sc) == _canon(ast.parse('%s + 2 + %s' % (pos, head[1]), mode='eval').body, sc) and buf


VARIANTS = [
    M('R2', OW, "                        self.valid = True\n                        self._update_finished_cb(self)\n                        self._update_finished_cb = None\n                    else:\n                        # We need to fetch the elements", "                        self._update_finished_cb(self)\n                        self._update_finished_cb = None\n                        self.valid = True\n                    else:\n                        # We need to fetch the elements", 'valid set after the callback'),
    M('R7', LO2, "            self._update_active_ids_finished_cb = update_active_ids_finished_cb\n            self.active_anchor_ids = []\n", "            self._update_active_ids_finished_cb = update_active_ids_finished_cb\n", 'active id list keeps the previous poll'),
    M('R7', DK, "                self.name = _name.split(b'\\x00')[0].decode()", "                self.name = _name[:_name.index(b'\\x00')].decode()", 'name needs a terminator'),
    M('R8', 'cflib/crazyflie/mem/led_timings_driver_memory.py', "            if (timing['time'] & 0xFF) != 0 or led != 0 or extra != 0:", "            if timing['time'] != 0 or led != 0 or extra != 0:", 'filter tests the unmasked time'),
    M('R1', I2C, "                     self.elements['pitch_trim'],\n                     self.elements['roll_trim']] = struct.unpack('<BBBff',", "                     self.elements['roll_trim'],\n                     self.elements['pitch_trim']] = struct.unpack('<BBBff',", 'reader trims swapped'),
    M('R1', I2C, "                        self.mem_handler.read(self, 16, 5)", "                        self.mem_handler.read(self, 16, 4)", 'second read short'),
    M('R1', I2C, "                self.elements['radio_address'] >> 32,", "                self.elements['radio_address'] >> 24,", 'address split'),
    M('R2', I2C, "                if self._checksum256(data[:len(data) - 1]) == \\\n                        data[len(data) - 1]:\n                    self.valid = True", "                self.valid = True", 'valid without checksum'),
    M('R2', I2C, "        return reduce(lambda x, y: x + y, list(st)) % 256", "        return reduce(lambda x, y: x ^ y, list(st)) % 256", 'xor checksum'),
    M('R2', OW, "        if start == 0xEB and crc == test_crc:", "        if start == 0xEB:", 'header crc ignored'),
    M('R3', OW, "        header_data = struct.pack('<BIBB', 0xEB, self.pins, self.vid, self.pid)", "        header_data = struct.pack('<BIBB', 0xEB, self.pins, self.pid, self.vid)", 'vid/pid swapped'),
    M('R3', OW, "                elem_data = elem_data[2 + elen:]", "                elem_data = elem_data[1 + elen:]", 'TLV advance'),
    M('R4', OW, "                    if elem_len == 0 and \\\n                            self._parse_and_check_elements(data[8:11]):", "                    if self._parse_and_check_elements(data[9:11]):", 'F-14a reintroduced'),
    M('R5', LH, "    SIZE_SWEEP = 7 * SIZE_FLOAT", "    SIZE_SWEEP = 6 * SIZE_FLOAT", 'sweep size'),
    M('R5', LH, "                            sweep_calib.gibmag,\n                            sweep_calib.gibphase,", "                            sweep_calib.gibphase,\n                            sweep_calib.gibmag,", 'writer sweep order'),
    M('R5', LH, "        self._add_vector(data, self.rotation_matrix[1])\n        self._add_vector(data, self.rotation_matrix[2])", "        self._add_vector(data, self.rotation_matrix[2])\n        self._add_vector(data, self.rotation_matrix[1])", 'rotation rows swapped'),
    M('R5', LH, "        geo_addr = self.GEO_START_ADDR + bs_id * self.PAGE_SIZE", "        geo_addr = self.GEO_START_ADDR + bs_id * LighthouseBsGeometry.SIZE_GEOMETRY", 'write page addressing'),
    M('R6', LH, "        result.gibphase = file_object[cls.FILE_ID_GIBPHASE]\n        result.ogeemag = file_object[cls.FILE_ID_OGEEMAG]", "        result.gibphase = file_object[cls.FILE_ID_OGEEMAG]\n        result.ogeemag = file_object[cls.FILE_ID_GIBPHASE]", 'yaml keys crossed'),
    M('R6', CFGM, "            if data[LighthouseConfigFileManager.VERSION_ID] != LighthouseConfigFileManager.VERSION:\n                raise Exception('Unsupported file version')\n", "", 'version not checked'),
    M('R6', PIO, "                        param['is_stored'], param['default_value'], param['stored_value'])", "                        param['is_stored'], param['stored_value'], param['default_value'])", 'state fields swapped'),
    M('R7', DK, "    SIZE_OF_DECK_MEM_INFO = 0x20", "    SIZE_OF_DECK_MEM_INFO = 0x1F", 'info size'),
    M('R7', DK, "    MASK_SUPPORTS_WRITE = 8", "    MASK_SUPPORTS_WRITE = 4", 'mask collision'),
    M('R7', LO2, "            self.anchor_ids.append(data[1 + i])", "            self.anchor_ids.append(data[i])", 'id list offset'),
    B(I2C, "                if self._checksum256(data[:len(data) - 1]) == \\\n                        data[len(data) - 1]:", "                if self._checksum256(data[:-1]) == data[-1]:", 'negative indices'),
]
