"""C05 - log blocks are created as configured and log data decodes to device values."""
import ast
import struct

from .. import bits as B_
from ..astutil import dotted, effective, method_call
from ..cfg import canon_test, cfg_of, fact_key, norm, walk_own
from ..consteval import Scope, fold_in
from ..mutate import B, M
from .c03 import generation_switch_rules, log_type_table_rules, toc_lookup_rules
from ..symexec import paths_of, paths_of_block

PROP = 'C05'
LOG = 'cflib/crazyflie/log.py'
SL = 'cflib/crazyflie/syncLogger.py'

EXPLANATION = (
    'Static analysis of Log/LogConfig/LogVariable/SyncLogger: R1 a configuration is accepted only under size <= 26, 0 < period < 0xFF '
    'and after every TOC variable was found; rejection raises; add_config transmits nothing; period = int(ms/10); R2 block messages: '
    'header (command, id) on (5, SETTINGS); per TOC variable type byte, id low, id high (current protocol) in that order, per memory '
    'variable pack(<BI, type, address); type byte = fetch | stored << 4; create command first then append, commands 6/7 (0/1 legacy); '
    'R3 a record is appended only if it fits completely (guard = record size) and otherwise the function returns (False, index of the '
    'current variable) so the next message starts with it; R4 no bytes object is appended element-wise to the payload; R5 resolving '
    'default-typed variables drains the pending list (idempotent re-add); R6 start is sent only on a create acknowledgement with status '
    '0/EEXIST for a block not yet added, flags follow the acknowledgements (create->added, start->started, stop->not started, '
    'delete/ENOENT->neither); R7 data packets: block id byte 0, little-endian 24-bit timestamp bytes 1..3, payload from 4, variables '
    'decoded in order with the table\'s format and size for fetch_as; R8 SyncLogger: samples enter one FIFO in callback order, leave one '
    'per __next__, the disconnect sentinel is queued after disconnect(), the enqueue is unconditional; R10 the sample fan-out (Caller.call) invokes every registered consumer once over a snapshot (shared with C07.R2); R11 the log type table (code -> C type, struct format, size) agrees with the firmware\'s log.h and the getters read the right column (shared with C03.R6).')
ASSUMPTIONS = ['firmware reads log block records as type byte + 16-bit id (TOC) / 32-bit address (memory)']
FLOORS = {'R9': 5, 'R1': 8, 'R2': 8, 'R3': 4, 'R4': 3, 'R5': 1, 'R6': 8, 'R7': 8, 'R8': 5, 'R10': 2, 'R11': 12}


def check(ctx):
    m = ctx.model
    L = m.cls(LOG, 'Log')
    C = m.cls(LOG, 'LogConfig')
    V = m.cls(LOG, 'LogVariable')

    # ---- R1 ------------------------------------------------------------------------
    ac = L.method('add_config')
    g = cfg_of(ac)
    lc = ac.params[1]
    acc = [n for n in g.nodes if n.kind == 'stmt' and isinstance(n.ast, ast.Assign) and norm(n.ast.targets[0]) == '%s.valid' % lc and
           isinstance(n.ast.value, ast.Constant) and n.ast.value.value is True]
    ctx.need(len(acc) == 1, 'add_config: acceptance (valid = True) not found')
    keys = g.fact_keys_at(acc[0])
    for want, label in ((fact_key('size <= LogConfig.MAX_LEN', True), 'size<=MAX_LEN'), (fact_key('%s.period > 0' % lc, True), 'period>0'),
                        (fact_key('%s.period < 255' % lc, True), 'period<0xFF')):
        ctx.inst('R1', ac, 'accept-needs:' + label, want in keys, 'acceptance must be guarded by %s; guards %s' % (label, sorted(keys)))
    ctx.inst('R1', ac, 'max-len', fold_in(ac, C.consts['MAX_LEN']) == 26, 'LogConfig.MAX_LEN must be 26')
    rej = [n for n in g.nodes if n.kind == 'raise']
    acc_e = [e for e in g.dominating_edges(acc[0]) if e.label and e.label[0] == 'cond' and 'MAX_LEN' in norm(e.label[1])]      # the edge taken on acceptance
    acc_if = [e.src for e in acc_e]
    ctx.need(acc_if, 'add_config: acceptance test not found')
    false_e = [e for e in acc_if[0].succ if e.label and e.label[0] == 'cond' and e is not acc_e[0]]                          # ... and the rejection edge
    ok = bool(false_e) and g.path_avoiding(acc_if[0], [g.exit], avoid_edges=[e for e in acc_if[0].succ if e not in false_e]) is None
    ctx.inst('R1', ac, 'rejection-raises', ok, 'a rejected configuration must raise on every path')
    tx = [c for c in walk_own(ac.node) if isinstance(c, ast.Call) and isinstance(c.func, ast.Attribute) and c.func.attr in ('send_packet', 'create', 'start')]
    ctx.inst('R1', ac, 'no-transmission', not tx, 'add_config must not transmit: %s' % [norm(c) for c in tx])
    szs = [s for s in walk_own(ac.node) if isinstance(s, ast.AugAssign) and norm(s.target) == 'size']
    loops = [l for l in walk_own(ac.node) if isinstance(l, ast.For) and norm(l.iter) == '%s.variables' % lc]
    ctx.inst('R1', ac, 'size=sum-of-fetch-sizes', len(szs) == 1 and len(loops) == 1 and szs[0] in list(walk_own(loops[0])) and isinstance(szs[0].op, ast.Add) and
             norm(szs[0].value) == 'LogTocElement.get_size_from_id(%s.fetch_as)' % norm(loops[0].target) and loops[0].body[0] is szs[0],
             'payload size is the sum over all variables of the fetch-type size')
    looked_up = {'var'} | {norm(s_.targets[0]) for s_ in walk_own(ac.node) if isinstance(s_, ast.Assign) and isinstance(s_.targets[0], ast.Name) and 'get_element_by_complete_name' in norm(s_.value)}
    miss = [n for n in rej if n.ast.exc is not None and norm(n.ast.exc).startswith('KeyError') and
            (any(fact_key(v_, False) in g.fact_keys_at(n) for v_ in looked_up) or any('get_element_by_complete_name' in k[0] for k in g.fact_keys_at(n)))]
    ctx.inst('R1', ac, 'unknown-variable-raises', len(miss) >= 2, 'a variable missing from the TOC raises KeyError (default-typed and typed variables)')
    lv = norm(loops[0].target) if len(loops) == 1 and isinstance(loops[0].target, ast.Name) else 'var'          # the loop variable, whatever its name
    toc_chk = [n for n in rej if fact_key('self.toc.get_element_by_complete_name(%s.name) is None' % lv, True) in g.fact_keys_at(n) and
               any(x is n.ast for l in loops for x in ast.walk(l))]
    ctx.inst('R1', ac, 'every-toc-variable-checked', len(toc_chk) == 1 and fact_key('%s.is_toc_variable()' % lv, True) in g.fact_keys_at(toc_chk[0]),
             'every TOC variable of the configuration is looked up')
    ci = C.method('__init__')
    per = [s for s in walk_own(ci.node) if isinstance(s, ast.Assign) and norm(s.targets[0]) == 'self.period']
    ctx.inst('R1', ci, 'period=ms/10', len(per) == 1 and norm(per[0].value) == 'int(%s / 10)' % ci.params[2], 'period is counted in 10 ms units')
    asg = {norm(n.ast.targets[0]): norm(n.ast.value) for n in g.nodes if n.kind == 'stmt' and isinstance(n.ast, ast.Assign) and
           ('e', acc_e[0].id) in g.dom()[('n', n.id)]}
    ctx.inst('R1', ac, 'accept-binds', asg.get('%s.cf' % lc) == 'self.cf' and asg.get('%s.id' % lc) == 'self._config_id_counter' and asg.get('%s.useV2' % lc) == 'self._useV2',
             'an accepted configuration gets the Crazyflie, a fresh id and the protocol generation')

    # ---- R2 / R3 / R4 ------------------------------------------------------------------
    sle = C.method('_setup_log_elements')
    floop = [l for l in walk_own(sle.node) if isinstance(l, ast.For)]
    ctx.need(len(floop) == 1, '_setup_log_elements: variable loop not found')
    ivar = norm(floop[0].target)
    ctx.inst('R3', sle, 'resume-from-next_to_add', norm(floop[0].iter) == 'range(%s, len(self.variables))' % sle.params[2], 'iteration starts at next_to_add and covers the rest in order')
    bps, ex = paths_of_block(sle, floop[0].body)
    n_rec = 0
    for p in bps:
        conds = p.cond_texts(orig=True)
        fk_ = p.fact_keys()
        mem = fact_key('var.is_toc_variable() is False', True) in fk_ or fact_key('var.is_toc_variable()', False) in fk_
        v2 = fact_key('self.useV2', True) in fk_
        appended = []
        for e in p.events:
            if e.kind == 'call' and method_call(e.node, 'append') and norm(e.orig.func.value) == 'pk.data':
                appended.append(('append', e.orig.args[0]))
            elif e.kind == 'store' and norm(e.node.targets[0]) == 'pk.data' and isinstance(e.orig, ast.AugAssign):
                appended.append(('extend', e.orig.value))
        ret = p.returned()
        kind = 'memory' if mem else ('toc-V2' if v2 else 'toc-V1')
        if ret is not None:
            ok = norm(ret) == '(False, %s)' % ivar and not appended
            ctx.inst('R3', sle, 'split[%s]' % kind, ok, 'when the record does not fit nothing of it is appended and (False, %s) is returned; appended %s, returned %s'
                     % (ivar, [norm(a[1]) for a in appended], norm(ret)))
            continue
        n_rec += 1
        if mem:
            ok = len(appended) == 1 and appended[0][0] == 'extend' and isinstance(appended[0][1], ast.Call) and dotted(appended[0][1].func) == 'struct.pack' and \
                fold_in(sle, appended[0][1].args[0]) == '<BI' and [norm(a) for a in appended[0][1].args[1:]] == ['var.get_storage_and_fetch_byte()', 'var.address']
            size = 5
            ctx.inst('R2', sle, 'record[memory]', ok, 'memory record must be pack(<BI, type byte, address); found %s' % [norm(a[1]) for a in appended])
        elif v2:
            want = ['var.get_storage_and_fetch_byte()', 'element_id & 255', 'element_id >> 8 & 255']
            ok = [a[0] for a in appended] == ['append'] * 3 and [norm(a[1]) for a in appended] == want
            size = 3
            ctx.inst('R2', sle, 'record[toc-V2]', ok, 'TOC record must be type byte, id low, id high; found %s' % [norm(a[1]) for a in appended])
            if len(appended) == 3:
                lo = B_.evaluate(appended[1][1], Scope.of(sle), {'element_id': 'id'})
                hi = B_.evaluate(appended[2][1], Scope.of(sle), {'element_id': 'id'})
                ctx.inst('R2', sle, 'id-little-endian', B_.is_input_field(lo, 0, 8, 'id', 0) and B_.is_input_field(hi, 0, 8, 'id', 8) and
                         all(b == 0 for b in lo[8:] + hi[8:]), 'id bytes low=%s high=%s' % (B_.describe(lo, 8), B_.describe(hi, 8)))
        else:
            ok = [norm(a[1]) for a in appended] == ['var.get_storage_and_fetch_byte()', 'element_id']
            size = None
            ctx.inst('R2', sle, 'record[toc-V1]', ok, 'legacy TOC record must be type byte, id; found %s' % [norm(a[1]) for a in appended])
        if size is not None:
            fk = p.fact_keys()
            okg = (fact_key('pk.available_data_size() >= size_to_add', True) in fk and fold_size(sle, size)) or \
                fact_key('pk.available_data_size() >= %d' % size, True) in fk
            ctx.inst('R3', sle, 'fits-before-append[%s]' % kind, okg, 'the %d-byte record is appended only if %d bytes are available; path guards %s' % (size, size, conds))
        for a in appended:
            if a[0] == 'append':
                ctx.inst('R4', sle, 'append-int[%s]:%s' % (kind, norm(a[1])[:30]), not (isinstance(a[1], ast.Call) and dotted(a[1].func) == 'struct.pack'),
                         'bytearray.append() needs an int; %s is a bytes object (TypeError at run time)' % norm(a[1]))
        if not mem:
            ctx.inst('R2', sle, 'id-source[%s]' % kind, any(e.kind == 'call' and norm(e.orig) == 'self.cf.log.toc.get_element_id(var.name)' for e in p.events),
                     'the id is looked up in the log TOC by the variable name')
    ctx.need(n_rec >= 3, '_setup_log_elements: expected memory, current and legacy record paths')
    rets = [norm(s.value) for s in sle.node.body if isinstance(s, ast.Return)]
    ctx.inst('R3', sle, 'done-after-last', rets == ['(True, %s)' % ivar], 'after the last variable (True, index) is returned')
    gb = V.method('get_storage_and_fetch_byte')
    rv = [s.value for s in walk_own(gb.node) if isinstance(s, ast.Return)]
    ctx.need(len(rv) == 1, 'get_storage_and_fetch_byte: single return expected')
    tb = B_.evaluate(rv[0], Scope.of(gb), {'self.fetch_as': 'fetch', 'self.stored_as': 'stored'}, {'fetch': 4, 'stored': 4})
    ctx.inst('R2', gb, 'type-byte', B_.is_input_field(tb, 0, 4, 'fetch') and B_.is_input_field(tb, 4, 4, 'stored'), 'type byte must be fetch | stored << 4; bits %s' % B_.describe(tb, 8))
    cr = C.method('create')
    wl = [w for w in walk_own(cr.node) if isinstance(w, ast.While)]
    ctx.need(len(wl) == 1, 'create: message loop not found')
    ctx.inst('R2', cr, 'loop-until-done', norm(wl[0].test) == 'not is_done', 'messages are produced until every variable is placed')
    body = [norm(s) for s in wl[0].body]
    want_order = ['pk.set_header(5, CHAN_SETTINGS)', 'pk.data = (command, self.id)', 'is_done, next_to_add = self._setup_log_elements(pk, next_to_add)',
                  'self.cf.send_packet(pk, expected_reply=(command, self.id))']
    pos = [body.index(w) if w in body else -1 for w in want_order]
    gc = cfg_of(cr)

    def command_table(nodes):
        """{uses current protocol: command code} over the given assignments to `command`, helper calls read through"""
        tbl = {}
        for n in nodes:
            v = n.ast.value
            if isinstance(v, ast.Call) and isinstance(v.func, ast.Attribute) and norm(v.func.value) == 'self' and C.has(v.func.attr) and not v.args:
                hf = C.method(v.func.attr)
                hps, _ = paths_of(hf)
                for p_ in hps:
                    if p_.returned() is not None:
                        tbl.setdefault(fact_key('self.useV2', True) in p_.fact_keys(), set()).add(fold_in(hf, p_.returned()))
            else:
                ks = gc.fact_keys_at(n)
                v2 = True if fact_key('self.useV2', True) in ks else False if fact_key('self.useV2', False) in ks else None
                tbl.setdefault(v2, set()).add(fold_in(cr, v))
        return {k: (sorted(v)[0] if len(v) == 1 else sorted(v, key=str)) for k, v in tbl.items()}
    cmd_nodes = [n for n in gc.nodes if n.kind == 'stmt' and isinstance(n.ast, ast.Assign) and norm(n.ast.targets[0]) == 'command']
    wln = [n for n in gc.nodes if n.kind == 'while' and n.ast is wl[0]]
    inside = {n.id for n in gc.loop_body_nodes(wln[0])} if wln else set()
    snd = [n for n, c in gc.find(lambda q: method_call(q, 'send_packet')) if n.id in inside]
    after_send = [n for n in cmd_nodes if n.id in inside]
    before = [n for n in cmd_nodes if n.id not in inside]
    ok_after = bool(after_send) and len(snd) == 1 and all(gc.dominates(snd[0], n) for n in after_send) and command_table(after_send) == {False: 1, True: 7}
    ctx.inst('R2', cr, 'message-shape', all(p >= 0 for p in pos) and pos == sorted(pos) and ok_after,
             'each message: header (5, SETTINGS), data starts (command, id), records, one send, then the command becomes append (1 legacy / 7 current); body %s; later commands %s'
             % (body, command_table(after_send)))
    ctx.inst('R2', cr, 'first-command', bool(before) and bool(wln) and all(gc.path_avoiding(wln[0], [n]) is None for n in before) and command_table(before) == {False: 0, True: 6},
             'the first message is a create (0 legacy / 6 current); %s' % command_table(before))
    for fn, v2c, v1c in (('_cmd_create_block', 6, 0), ('_cmd_append_block', 7, 1)):
        if not C.has(fn):
            continue                 # inlined into create(): covered by the two tables above
        f = C.method(fn)
        ps, _ = paths_of(f)
        got = sorted(((fact_key('self.useV2', True) in p.fact_keys()), fold_in(f, p.returned())) for p in ps if p.returned() is not None)
        ctx.inst('R2', f, 'command-codes', got == [(False, v1c), (True, v2c)], '%s returns %s, expected legacy %d / current %d' % (fn, got, v1c, v2c))

    # ---- R5 ---------------------------------------------------------------------------------------
    dl = [l for l in walk_own(ac.node) if isinstance(l, ast.For) and norm(l.iter) == '%s.default_fetch_as' % lc]
    ctx.need(len(dl) == 1, 'add_config: resolution loop over default_fetch_as not found')
    adds = [c for c in walk_own(dl[0]) if method_call(c, 'add_variable')]
    gl = g.nodes_of(dl[0])
    drains = [n for n in g.nodes if n.kind == 'stmt' and ((isinstance(n.ast, ast.Assign) and norm(n.ast.targets[0]) == '%s.default_fetch_as' % lc and norm(n.ast.value) in ('[]', 'list()'))
                                                          or (isinstance(n.ast, ast.Expr) and method_call(n.ast.value, 'clear') and norm(n.ast.value.func.value) == '%s.default_fetch_as' % lc))]
    ok = bool(adds) and any(g.dominates(gl[0], d) and g.dominates(d, acc[0]) for d in drains)
    # ... on every way out once the loop has run to its end - also when the configuration is then rejected (a caller that shortens the
    # configuration and adds it again would get every default-typed variable twice)
    fornode = [n for n in gl if n.kind == 'for']
    if ok and fornode:
        body_ids = {n.id for n in g.loop_body_nodes(fornode[0])}
        into_body = [e for e in fornode[0].succ if e.dst.id in body_ids]
        esc = g.path_avoiding(fornode[0], [g.exit, g.raise_exit], avoid=drains, avoid_edges=into_body)
        ok = esc is None
    ctx.inst('R5', ac, 'resolved-names-drained', ok, 'names resolved into `variables` must be removed from default_fetch_as before acceptance (re-adding would double the variables)')

    # ---- R6 ---------------------------------------------------------------------------------------
    cb = L.method('_new_packet_cb')
    g = cfg_of(cb)
    starts = [(n, s) for n in g.nodes for s in [n.ast] if n.kind == 'stmt' and isinstance(s, ast.Assign) and norm(s.targets[0]) == 'pk.data' and 'CMD_START_LOGGING' in norm(s.value)]
    ctx.need(len(starts) == 1, '_new_packet_cb: start message not found')
    keys = g.fact_keys_at(starts[0][0])
    want = [fact_key('chan == CHAN_SETTINGS', True), fact_key('cmd == CMD_CREATE_BLOCK or cmd == CMD_CREATE_BLOCK_V2', True), fact_key('block is not None', True),
            fact_key('error_status == 0 or error_status == errno.EEXIST', True), fact_key('block.added', False)]
    ctx.inst('R6', cb, 'start-on-create-ack', all(w in keys for w in want), 'start is sent only on a create ack (status 0/EEXIST) for a known block not yet added; guards %s' % sorted(keys))
    ctx.inst('R6', cb, 'start-message', norm(starts[0][1].value) == '(CMD_START_LOGGING, id, block.period)', 'start message is (START, id, period)')
    flags = [(n, norm(n.ast.targets[0]), norm(n.ast.value)) for n in g.nodes if n.kind == 'stmt' and isinstance(n.ast, ast.Assign) and norm(n.ast.targets[0]) in ('block.added', 'block.started')]
    table = {}
    for n, t, v in flags:
        keys = g.fact_keys_at(n)
        cmd = [k[0] for k in keys if 'CMD_' in k[0] and (k[1] or ' and ' in k[0])]
        table.setdefault((t, v), []).append((sorted(cmd), keys))

    def under(tv, cmdtxt, status):
        return any(any(cmdtxt in c for c in cmd) and status in keys for cmd, keys in table.get(tv, []))
    ctx.inst('R6', cb, 'added-on-create-ok', under(('block.added', 'True'), 'CMD_CREATE_BLOCK', fact_key('error_status == 0 or error_status == errno.EEXIST', True)) and len(table.get(('block.added', 'True'), [])) == 1,
             'added = True only on a successful create acknowledgement')
    ctx.inst('R6', cb, 'started-on-start-ok', under(('block.started', 'True'), 'CMD_START_LOGGING', fact_key('error_status == 0', True)) and len(table.get(('block.started', 'True'), [])) == 1,
             'started = True only on a successful start acknowledgement')
    ctx.inst('R6', cb, 'stopped-on-stop-ok', under(('block.started', 'False'), 'CMD_STOP_LOGGING', fact_key('error_status == 0', True)), 'started = False on a successful stop acknowledgement')
    ctx.inst('R6', cb, 'deleted-on-delete-ok', under(('block.started', 'False'), 'CMD_DELETE_BLOCK', fact_key('error_status == 0 or error_status == errno.ENOENT', True)) and
             under(('block.added', 'False'), 'CMD_DELETE_BLOCK', fact_key('error_status == 0 or error_status == errno.ENOENT', True)), 'delete (ok / ENOENT) clears both flags')
    ctx.inst('R6', cb, 'flag-sites', len(flags) == 5, 'exactly five flag updates (create, start, stop, delete x2); found %d' % len(flags))
    st = {norm(n.ast.targets[0]): norm(n.ast.value) for n in g.nodes if n.kind == 'stmt' and isinstance(n.ast, ast.Assign) and isinstance(n.ast.targets[0], ast.Name)
          and fact_key('chan == CHAN_LOGDATA', True) not in g.fact_keys_at(n)}
    ctx.inst('R6', cb, 'ack-fields', st.get('cmd') == 'packet.data[0]' and st.get('payload') == 'packet.data[1:]' and st.get('error_status') == 'payload[1]' and st.get('block') == 'self._find_block(id)',
             'cmd = data[0], block id = payload[0], status = payload[1]')
    # the flag callbacks fire from the flag setters (on a change of the flag); the packet handler itself calls them only to report a
    # refused request (error status, value False).  A second direct call - say to "make a duplicate visible" - fires the callback twice
    direct = [(n, c) for n, c in g.find(lambda q: method_call(q, 'call') and norm(q.func.value).split('.')[-1] in ('added_cb', 'started_cb'))]
    okd = all(fact_key('error_status == 0', False) in g.fact_keys_at(n) and c.args and isinstance(c.args[-1], ast.Constant) and c.args[-1].value is False for n, c in direct)
    elsewhere = ['%s:%s' % (f_.qualname, norm(c)) for f_ in m.mod(LOG).all_funcs() if f_.qualname not in ('Log._new_packet_cb', 'LogConfig._set_added', 'LogConfig._set_started')
                 for c in walk_own(f_.node) if method_call(c, 'call') and norm(c.func.value).split('.')[-1] in ('added_cb', 'started_cb')]
    ctx.inst('R6', cb, 'flag-callbacks-only-from-setters', okd and not elsewhere,
             'added_cb / started_cb are called by the flag setters; the acknowledgement handler calls them directly only with False under an error status; '
             'direct calls: %s, elsewhere: %s' % ([norm(c) for _, c in direct], elsewhere))
    for prop_name, setter in (('added', '_set_added'), ('started', '_set_started')):
        f = C.method(setter)
        body = effective(f.node.body)
        okfc = len(body) == 2 and isinstance(body[0], ast.If) and canon_test(body[0].test) == fact_key('%s != self._%s' % (f.params[1], prop_name))[0].join(['not ', '']) and \
            [norm(x) for x in effective(body[0].body)] == ['self.%s_cb.call(self, %s)' % (prop_name, f.params[1])] and not body[0].orelse and norm(body[1]) == 'self._%s = %s' % (prop_name, f.params[1])
        ctx.inst('R6', f, 'flag-callback', okfc,
                 '%s notifies on change and stores the flag' % setter)

    drops = [n for n in g.nodes if n.kind == 'stmt' and ((isinstance(n.ast, ast.Assign) and norm(n.ast.targets[0]) == 'self.log_blocks') or
                                                       (isinstance(n.ast, ast.Expr) and isinstance(n.ast.value, ast.Call) and isinstance(n.ast.value.func, ast.Attribute) and
                                                        n.ast.value.func.attr in ('clear', 'remove', 'pop') and norm(n.ast.value.func.value) == 'self.log_blocks') or
                                                       (isinstance(n.ast, ast.Delete) and any(norm(t).startswith('self.log_blocks') for t in n.ast.targets)))]
    tocs = [n for n in g.nodes if n.kind == 'stmt' and isinstance(n.ast, ast.Assign) and norm(n.ast.targets[0]) == 'self.toc' and norm(n.ast.value) == 'Toc()']
    ok = len(drops) == 1 and len(tocs) == 1 and g.fact_keys_at(drops[0]) == g.fact_keys_at(tocs[0]) and fact_key('self.toc', False) in g.fact_keys_at(drops[0]) and \
        fact_key('cmd == CMD_RESET_LOGGING', True) in g.fact_keys_at(drops[0])
    ctx.inst('R6', cb, 'blocks-dropped-only-with-toc-download', ok,
             'live blocks may be forgotten only by the first reset acknowledgement of a connection (the one that starts the TOC download, `not self.toc`); a duplicated or '
             'late reset reply must not drop blocks added since, and a deleted block stays known (the same configuration can be created again); sites that drop blocks: %s'
             % [norm(n.ast)[:50] for n in drops])

    # ---- R7 ---------------------------------------------------------------------------------------
    # the decode call of a data packet; every argument is read back through the locals that carry it (whatever they are called)
    up = [(n, c) for n, c in g.find(lambda q: method_call(q, 'unpack_log_data')) if fact_key('chan == CHAN_LOGDATA', True) in g.fact_keys_at(n)]
    ctx.inst('R7', cb, 'decode-call', len(up) == 1 and len(up[0][1].args) == 2 and not up[0][1].keywords, 'the block decodes (logdata, timestamp), once, for data packets')
    if len(up) == 1 and len(up[0][1].args) == 2:
        un, uc = up[0]
        blk = uc.func.value
        if isinstance(blk, ast.Name):
            ds = g.reaching_defs(un, blk.id)
            if len(ds) == 1 and g.def_value(ds[0], blk.id) is not None:
                blk = g.expand_locals(ds[0], g.def_value(ds[0], blk.id))
        ctx.inst('R7', cb, 'data-id', norm(blk) == 'self._find_block(packet.data[0])', 'block id is byte 0 of the data packet; the receiver is %s' % norm(blk))
        ctx.inst('R7', cb, 'payload-offset', norm(g.expand_locals(un, uc.args[0])) == 'packet.data[4:]', 'payload starts at byte 4; decoded bytes are %s' % norm(g.expand_locals(un, uc.args[0])))
        # timestamp: an expression over the three bytes unpacked from data[1:4], reached as  ts[i]  or through  a, b, c = unpack(..)
        tsx = uc.args[1]
        tn = un
        if isinstance(tsx, ast.Name):
            ds = g.reaching_defs(un, tsx.id)
            if len(ds) == 1 and g.def_value(ds[0], tsx.id) is not None:
                tn, tsx = ds[0], g.def_value(ds[0], tsx.id)
        env, src_ok = {}, True
        for leaf in [x for x in ast.walk(tsx) if isinstance(x, ast.Name) and isinstance(x.ctx, ast.Load)]:
            ds = g.reaching_defs(tn, leaf.id)
            if len(ds) != 1 or not isinstance(ds[0].ast, ast.Assign):
                src_ok = False
                continue
            tg, val = ds[0].ast.targets[0], ds[0].ast.value
            if norm(val) != "struct.unpack('<BBB', packet.data[1:4])":
                src_ok = False
            elif isinstance(tg, ast.Name):
                env.update({'%s[%d]' % (tg.id, i): 't%d' % i for i in range(3)})
            elif isinstance(tg, (ast.Tuple, ast.List)) and len(tg.elts) == 3:
                env.update({norm(e): 't%d' % i for i, e in enumerate(tg.elts)})
            else:
                src_ok = False
        ctx.inst('R7', cb, 'timestamp-bytes', src_ok and bool(env), "timestamp bytes are struct.unpack('<BBB', packet.data[1:4])")
        if env:
            tb = B_.evaluate(tsx, Scope.of(cb), env, {'t0': 8, 't1': 8, 't2': 8})
            ctx.inst('R7', cb, 'timestamp-little-endian', B_.is_input_field(tb, 0, 8, 't0') and B_.is_input_field(tb, 8, 8, 't1') and B_.is_input_field(tb, 16, 8, 't2') and all(b == 0 for b in tb[24:]),
                     '24-bit timestamp = t0 | t1 << 8 | t2 << 16; bits %s' % B_.describe(tb, 24))
    ul = C.method('unpack_log_data')
    # each sample is a dictionary of its own: the receivers (SyncLogger's queue) keep the object they were given, a re-used scratch
    # dictionary makes every queued sample show the newest packet
    gul = cfg_of(ul)
    dc = gul.find(lambda q: method_call(q, 'call') and norm(q.func.value).endswith('data_received_cb'))
    okf = len(dc) == 1 and len(dc[0][1].args) == 3 and isinstance(dc[0][1].args[1], ast.Name)
    if okf:
        ds = gul.reaching_defs(dc[0][0], dc[0][1].args[1].id)
        dv = [gul.def_value(d, dc[0][1].args[1].id) for d in ds]
        okf = len(ds) == 1 and dv[0] is not None and norm(dv[0]) in ('{}', 'dict()')
    ctx.inst('R7', ul, 'fresh-sample-per-packet', okf, 'the decoded values are collected in a dictionary created for this packet ({} / dict()), not in an object kept on the block')
    lp = [l for l in walk_own(ul.node) if isinstance(l, ast.For)]
    ctx.need(len(lp) == 1, 'unpack_log_data: loop not found')
    dname = dc[0][1].args[1].id if len(dc) == 1 and len(dc[0][1].args) == 3 and isinstance(dc[0][1].args[1], ast.Name) else None      # the dictionary handed to the callbacks
    vn = norm(lp[0].target)
    ctx.inst('R7', ul, 'in-order', norm(lp[0].iter) == 'self.variables', 'variables are decoded in configuration order')
    # one iteration, read symbolically: the locals of the body are replaced by what they stand for, so the rules below hold for any
    # spelling (size kept in a local or not, `x, = unpack(..)` or `unpack(..)[0]`, `i += size` or `end = i + size .. i = end`)
    import copy as _copy

    class _Sub(ast.NodeTransformer):
        def __init__(self, env):
            self.env = env

        def visit_Name(self, n):
            return _copy.deepcopy(self.env[n.id]) if isinstance(n.ctx, ast.Load) and n.id in self.env else n
    env, stores_, straight = {}, [], True
    for s_ in lp[0].body:
        if isinstance(s_, ast.AnnAssign) and s_.value is not None:
            s_ = ast.Assign(targets=[s_.target], value=s_.value)
        if isinstance(s_, ast.Assign) and len(s_.targets) == 1:
            tg, val = s_.targets[0], _Sub(env).visit(_copy.deepcopy(s_.value))
            if isinstance(tg, (ast.Tuple, ast.List)) and len(tg.elts) == 1:
                tg, val = tg.elts[0], ast.Subscript(value=val, slice=ast.Constant(value=0), ctx=ast.Load())       # x, = E : the first (only) element
            if isinstance(tg, ast.Name):
                env[tg.id] = val
            elif isinstance(tg, ast.Subscript):
                stores_.append((norm(_Sub(env).visit(_copy.deepcopy(tg.value))), norm(_Sub(env).visit(_copy.deepcopy(tg.slice))), val))
            else:
                straight = False
        elif isinstance(s_, ast.AugAssign) and isinstance(s_.target, ast.Name):
            env[s_.target.id] = ast.BinOp(left=_copy.deepcopy(env.get(s_.target.id, ast.Name(id=s_.target.id, ctx=ast.Load()))), op=s_.op, right=_Sub(env).visit(_copy.deepcopy(s_.value)))
        elif isinstance(s_, ast.Expr) and isinstance(s_.value, ast.Constant):
            pass
        else:
            straight = False
    ctx.need(straight, 'unpack_log_data: the loop body is not a straight line of bindings')
    SIZE = 'LogTocElement.get_size_from_id(%s.fetch_as)' % vn
    FMT = 'LogTocElement.get_unpack_string_from_id(%s.fetch_as)' % vn
    ups = [c for _, _, v_ in stores_ for c in ast.walk(v_) if isinstance(c, ast.Call) and norm(c.func) == 'struct.unpack']
    up = ups[0] if len(ups) == 1 and len(stores_) == 1 and len(ups[0].args) == 2 else None
    sl = up.args[1] if up is not None and isinstance(up.args[1], ast.Subscript) and isinstance(up.args[1].slice, ast.Slice) else None
    # the running index: the one local the body re-binds in terms of itself, and the slice starts at
    idx = norm(sl.slice.lower) if sl is not None and isinstance(sl.slice.lower, ast.Name) else None
    hi = norm(sl.slice.upper) if sl is not None and sl.slice.upper is not None else None
    ctx.inst('R7', ul, 'size-from-table', idx is not None and hi in ('%s + %s' % (idx, SIZE), '%s + %s' % (SIZE, idx)), 'size of each value from the type table (fetch_as); the slice ends at %s' % hi)
    ctx.inst('R7', ul, 'format-from-table', up is not None and norm(up.args[0]) == FMT, 'format of each value from the type table (fetch_as); found %s' % (norm(up.args[0]) if up is not None else None))
    ctx.inst('R7', ul, 'slice', sl is not None and norm(sl.value) == ul.params[1] and sl.slice.step is None and idx is not None and
             norm(stores_[0][2]) == 'struct.unpack(%s, %s[%s:%s])[0]' % (FMT, ul.params[1], idx, hi), 'value = first element decoded from %s[index : index + size]; found %s' %
             (ul.params[1], norm(stores_[0][2]) if stores_ else None))
    adv = norm(env[idx]) if idx in env else None
    ctx.inst('R7', ul, 'advance', adv in ('%s + %s' % (idx, SIZE), '%s + %s' % (SIZE, idx)), 'the index advances by the size just decoded; after one iteration it is %s' % adv)
    # the dictionary the values go to is the one delivered (checked by deliver-once / fresh-sample-per-packet through its name)
    ctx.inst('R7', ul, 'keyed-by-name', len(stores_) == 1 and stores_[0][1] == '%s.name' % vn and stores_[0][0] == dname, 'result keyed by variable name, in the dictionary that is delivered (%s); stores %s' %
             (dname, [(a_, b_) for a_, b_, _ in stores_]))
    dc = [c for c in walk_own(ul.node) if method_call(c, 'call') and norm(c.func.value) == 'self.data_received_cb']
    ctx.inst('R7', ul, 'deliver-once', len(dc) == 1 and [norm(a) for a in dc[0].args] == [ul.params[2], dname, 'self'] and dc[0] not in list(walk_own(lp[0])),
             'data_received_cb is called once per packet with (timestamp, data, self)')

    # ---- R8 ---------------------------------------------------------------------------------------
    S = m.cls(SL, 'SyncLogger')
    ini = S.method('__init__')
    q = [s for s in walk_own(ini.node) if isinstance(s, ast.Assign) and norm(s.targets[0]) == 'self._queue']
    ctx.inst('R8', ini, 'fifo', len(q) == 1 and norm(q[0].value) == 'Queue()', 'samples are buffered in a FIFO Queue')
    lcb = S.method('_log_callback')
    puts = [c for c in walk_own(lcb.node) if method_call(c, 'put') and norm(c.func.value) == 'self._queue']
    gl = cfg_of(lcb)
    pn = [n for c in puts for n in gl.nodes_containing(c)]
    uncond = len(pn) == 1 and not gl.fact_keys_at(pn[0]) and ('n', pn[0].id) in gl.dom()[('n', gl.exit.id)]
    ctx.inst('R8', lcb, 'enqueue-each-sample', len(puts) == 1 and norm(puts[0].args[0]) == '(%s)' % ', '.join(lcb.params[1:4]) and len(effective(lcb.node.body)) == 1 and uncond and
             not puts[0].keywords and len(puts[0].args) == 1, 'each decoded sample is enqueued once, as received, unconditionally (no state test: samples arrive while connect() is still running)')
    from .c07 import caller_rules
    from .c08 import packet_size_rules
    packet_size_rules(ctx, 'R3')      # 'it fits' is asked of the packet as it is now: the records are appended to pk.data in place (shared with C08.R4)
    caller_rules(ctx, 'R10')      # LogConfig.data_received_cb is a Caller: every registered consumer gets each sample once (shared with C07.R2)
    nx = S.method('__next__')
    gets = [c for c in walk_own(nx.node) if method_call(c, 'get') and norm(c.func.value) == 'self._queue']
    rets = [norm(s.value) for s in walk_own(nx.node) if isinstance(s, ast.Return) and s.value is not None]
    ctx.inst('R8', nx, 'one-sample-per-next', len(gets) == 1 and not gets[0].args and rets == ['data'] and not any(isinstance(x, (ast.For, ast.While)) for x in walk_own(nx.node)),
             '__next__ takes exactly one item and returns it')
    gn = cfg_of(nx)
    stop = [n for n in gn.nodes if n.kind == 'raise' and fact_key('data == self.DISCONNECT_EVENT', True) in gn.fact_keys_at(n)]
    ctx.inst('R8', nx, 'sentinel-ends-iteration', len(stop) == 1 and norm(stop[0].ast.exc) == 'StopIteration', 'the disconnect sentinel ends the iteration')
    dis = S.method('_disconnected')
    body = [norm(s) for s in effective(dis.node.body)]
    ctx.inst('R8', dis, 'sentinel-after-disconnect', body == ['self.disconnect()', 'self._queue.put(self.DISCONNECT_EVENT)'], 'on link loss: disconnect(), then the sentinel is queued; body %s' % body)
    con = S.method('connect')
    lp2 = [l for l in walk_own(con.node) if isinstance(l, ast.For)]
    ctx.need(len(lp2) >= 1, 'SyncLogger.connect: config loop not found')
    gcon = cfg_of(con)
    # per configuration: added, then hooked, then started - whatever loops carry the three steps, no block is started before the queue
    # callback is registered on it (the receive thread delivers the first sample as soon as the start is acknowledged)
    steps = {}
    for kind_, pred in (('add', lambda q: method_call(q, 'add_config')), ('hook', lambda q: method_call(q, 'add_callback') and norm(q.func.value).endswith('data_received_cb')),
                        ('start', lambda q: method_call(q, 'start') and not norm(q.func.value).startswith('self'))):
        steps[kind_] = gcon.find(pred)
    one_each = all(len(v) == 1 for v in steps.values())
    okseq = one_each and [norm(a) for a in steps['hook'][0][1].args] == ['self._log_callback']
    if okseq:
        a_, h_, s_ = steps['add'][0][0], steps['hook'][0][0], steps['start'][0][0]
        in_loop = {kind_: [l for l in gcon.nodes if l.kind == 'for' and v[0][0].id in {b.id for b in gcon.loop_body_nodes(l)}] for kind_, v in steps.items()}
        same_loop = all(len(x) == 1 for x in in_loop.values()) and len({x[0].id for x in in_loop.values()}) == 1
        if same_loop:
            okseq = gcon.dominates(a_, h_) and gcon.dominates(h_, s_)
        else:
            # separate loops over the same list: the loop that hooks must be finished before the loop that starts begins
            okseq = all(len(x) == 1 for x in in_loop.values()) and gcon.dominates(in_loop['hook'][0], in_loop['start'][0]) and \
                in_loop['hook'][0].id != in_loop['start'][0].id and gcon.dominates(in_loop['add'][0], in_loop['start'][0]) and \
                len({norm(x[0].ast.iter) for x in in_loop.values()}) == 1
    ctx.inst('R8', con, 'connect-sequence', okseq, 'each configuration is added, hooked (queue callback) and started once, the hook before the start')
    reg = [c for c in walk_own(con.node) if method_call(c, 'add_callback') and norm(c.func.value) == 'self._cf.disconnected']
    ctx.inst('R8', con, 'disconnect-hook', len(reg) == 1 and [norm(a) for a in reg[0].args] == ['self._disconnected'], 'connect registers the disconnect hook')


    # ---- R9: table look-ups used by this subsystem (shared rule, see C03.R8) -----------------
    toc_lookup_rules(ctx, 'R9')
    generation_switch_rules(ctx, 'R2')     # record layout and command codes: Log, LogConfig and the table fetcher switch generation at the same version (shared with C03.R5)
    log_type_table_rules(ctx, 'R11')       # size and format of every logged value: the type table against the firmware's log.h (shared with C03.R6)


def fold_size(f, size):
    s = [x for x in ast.walk(f.node) if isinstance(x, ast.Assign) and norm(x.targets[0]) == 'size_to_add']
    return len(s) == 1 and fold_in(f, s[0].value) == size


VARIANTS = [
    M('R11', LOG, "             0x08: ('FP16', '<e', 2),\n             0x07: ('float', '<f', 4)}", "             0x07: ('FP16', '<e', 2),\n             0x08: ('float', '<f', 4)}", 'FP16 / float codes swapped'),
    M('R8', SL, "        self._queue.put((ts, data, logblock))\n", "        if self._is_connected:\n            self._queue.put((ts, data, logblock))\n", 'samples dropped until connect() has returned'),
    M('R1', LOG, "(logconf.period > 0 and logconf.period < 0xFF)):", "(logconf.period > 0 and logconf.period < 0x100)):", 'period < 0x100'),
    M('R1', LOG, "        if (size <= LogConfig.MAX_LEN and", "        if (size < LogConfig.MAX_LEN + 2 and", 'size bound'),
    M('R1', LOG, "    MAX_LEN = 26\n", "    MAX_LEN = 30\n", 'MAX_LEN'),
    M('R1', LOG, "            size += LogTocElement.get_size_from_id(var.fetch_as)\n            # Check that we are able to find the variable in the TOC so\n", "            # Check that we are able to find the variable in the TOC so\n", 'size never accumulated'),
    M('R2', LOG, "                        pk.data.append(element_id & 0x0ff)\n                        pk.data.append((element_id >> 8) & 0x0ff)", "                        pk.data.append((element_id >> 8) & 0x0ff)\n                        pk.data.append(element_id & 0x0ff)", 'id big-endian'),
    M('R2', LOG, "        return (self.fetch_as | (self.stored_as << 4))", "        return (self.stored_as | (self.fetch_as << 4))", 'type nibbles swapped'),
    M('R2', LOG, "            command = self._cmd_append_block()\n", "", 'every message is a create'),
    M('R2', LOG, "CMD_APPEND_BLOCK_V2 = 7", "CMD_APPEND_BLOCK_V2 = 6", 'append code'),
    M('R3', LOG, "                    size_to_add = 3\n", "                    size_to_add = 2\n", 'fit test too small'),
    M('R3', LOG, "                        # Packet is full\n                        return False, i\n", "                        # Packet is full\n                        return False, i + 1\n", 'skips the variable that did not fit'),
    M('R4', LOG, "                pk.data += struct.pack('<BI',\n                                       var.get_storage_and_fetch_byte(),\n                                       var.address)", "                pk.data.append(struct.pack('<B', var.get_storage_and_fetch_byte()))\n                pk.data += struct.pack('<I', var.address)", 'F-05b reintroduced'),
    M('R5', LOG, "        logconf.default_fetch_as = []\n", "", 'F-05a reintroduced'),
    M('R6', LOG, "                        if not block.added:\n                            logger.debug('Have successfully added id=%d', id)", "                        if True:\n                            logger.debug('Have successfully added id=%d', id)", 'start resent on duplicate create ack'),
    M('R6', LOG, "                    if block:\n                        block.started = True", "                if block:\n                    block.started = True", 'started regardless of status'),
    M('R7', LOG, "                timestamps[0] | timestamps[1] << 8 | timestamps[2] << 16)", "                timestamps[0] << 16 | timestamps[1] << 8 | timestamps[2])", 'timestamp big-endian'),
    M('R7', LOG, "            data_index += size\n", "            data_index += 4\n", 'constant advance'),
    M('R7', LOG, "            logdata = packet.data[4:]", "            logdata = packet.data[3:]", 'payload offset'),
    M('R8', SL, "        self.disconnect()\n        self._queue.put(self.DISCONNECT_EVENT)", "        self._queue.put(self.DISCONNECT_EVENT)\n        self.disconnect()", 'sentinel before disconnect'),
    B(LOG, "                if pk.available_data_size() < 5:\n                    # Packet is full\n                    return False, i", "                if not pk.available_data_size() >= 5:\n                    return False, i", 'not >= 5'),
    B(LOG, "        logconf.default_fetch_as = []\n", "        logconf.default_fetch_as.clear()\n", 'clear()'),
]
