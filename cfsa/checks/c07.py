"""C07 - received packets reach exactly the matching callbacks, once, in order."""
import ast

from ..astutil import catches_everything, dotted, method_call
from ..cfg import cfg_of, fact_key, implied, norm, walk_own
from ..consteval import fold_in
from ..mutate import B, M

PROP = 'C07'
CF = 'cflib/crazyflie/__init__.py'
CB = 'cflib/utils/callbacks.py'

EXPLANATION = (
    'Static analysis (ast + CFG/dominators) of the packet dispatcher and Caller: '
    'R1 the match predicate guarding each callback invocation is exactly port==(pk.port&port_mask) and '
    'channel==(pk.channel&channel_mask); R2 every loop that invokes registered callables iterates over a '
    'snapshot of a container that in-library code mutates; R3 every callback invocation sits in a try whose '
    'catch-all handler neither re-raises nor leaves the loop; R4 removal requires equality of all five fields; '
    'R5 one receive, one all-packet fan-out and one dispatch loop per iteration, all after the None test; '
    'R6 registration stores fields in declaration order and port-only registration uses masks (0xFF,0x00), channel 0; R8 the port and channel the predicate compares are decoded from a received header as bits 7..4 and 1..0 only (the link bits 3..2 never reach the channel; shared with C08.R4). '
    'Decides the structural necessary conditions, not scheduling.')
ASSUMPTIONS = [
    'the dispatcher thread is the only caller of the dispatch loop',
    'user callbacks are opaque; only in-library mutators of the registration list are considered',
]
FLOORS = {'R1': 2, 'R2': 2, 'R3': 1, 'R4': 5, 'R5': 3, 'R6': 4, 'R7': 2, 'R8': 3}

SNAPSHOT_CALLS = ('list', 'tuple', 'sorted', 'copy.copy', 'copy')


def is_snapshot(expr):
    """Expression that materialises a fresh sequence before iteration starts."""
    if isinstance(expr, ast.ListComp):
        return True
    if isinstance(expr, ast.Call) and dotted(expr.func) in SNAPSHOT_CALLS and expr.args:
        return True
    if isinstance(expr, ast.Call) and isinstance(expr.func, ast.Attribute) and expr.func.attr == 'copy' and not expr.args:
        return True
    if isinstance(expr, ast.Subscript) and isinstance(expr.slice, ast.Slice) and \
            expr.slice.lower is None and expr.slice.upper is None and expr.slice.step is None:
        return True
    return False


def live_sources(expr):
    """self.<attr> containers an un-snapshotted iterable draws from lazily."""
    out = set()
    if isinstance(expr, ast.GeneratorExp):
        for g in expr.generators:
            out |= live_sources(g.iter)
        return out
    if isinstance(expr, ast.Call) and dotted(expr.func) in ('filter', 'map', 'iter', 'reversed', 'enumerate', 'zip'):
        for a in expr.args:
            out |= live_sources(a)
        return out
    if isinstance(expr, ast.Attribute) and isinstance(expr.value, ast.Name) and expr.value.id == 'self':
        out.add(expr.attr)
    return out


def class_mutators(klass, attr):
    """Methods of klass that mutate list self.<attr> in place."""
    out = []
    for m in klass.methods.values():
        for n in ast.walk(m.node):
            if isinstance(n, ast.Call) and isinstance(n.func, ast.Attribute) and \
                    n.func.attr in ('append', 'remove', 'pop', 'insert', 'clear', 'extend', 'sort', 'reverse') and \
                    norm(n.func.value) == 'self.' + attr:
                out.append(m.name)
            if isinstance(n, ast.Delete):
                for t in n.targets:
                    if isinstance(t, ast.Subscript) and norm(t.value) == 'self.' + attr:
                        out.append(m.name)
    return sorted(set(out))


def resolve_iter(func, loop):
    """Iterable expression of a for loop, looking through one local name."""
    it = loop.iter
    if isinstance(it, ast.Name):
        defs = [st for st in walk_own(func.node) if isinstance(st, ast.Assign) and
                any(isinstance(t, ast.Name) and t.id == it.id for t in st.targets)]
        if len(defs) == 1:
            return defs[0].value
    return it


def dispatch_loops(func, is_cb_call):
    """for-loops of func whose body invokes a registered callable."""
    out = []
    for st in walk_own(func.node):
        if isinstance(st, ast.For):
            hits = [c for c in walk_own(st) if isinstance(c, ast.Call) and is_cb_call(c, st)]
            # innermost loop only
            inner = [s for s in walk_own(st) if isinstance(s, ast.For) and s is not st and
                     any(c in list(walk_own(s)) for c in hits)]
            if hits and not inner:
                out.append((st, hits))
    return out


def check(ctx):
    m = ctx.model
    run = m.func(CF, '_IncomingPacketHandler.run')
    klass = m.cls(CF, '_IncomingPacketHandler')
    g = cfg_of(run)

    # the dispatch loop: for <cbvar> in ...: <cbvar>.callback(<pk>)
    def is_cb(c, loop):
        return isinstance(loop.target, ast.Name) and isinstance(c.func, ast.Attribute) and \
            c.func.attr == 'callback' and isinstance(c.func.value, ast.Name) and c.func.value.id == loop.target.id
    loops = dispatch_loops(run, is_cb)
    ctx.need(len(loops) >= 1, '%s: no loop invoking <registration>.callback(pk) found in run()' % CF)

    # the received packet variable
    recv = [st for st in walk_own(run.node) if isinstance(st, ast.Assign) and isinstance(st.value, ast.Call)
            and method_call(st.value, 'receive_packet') and isinstance(st.targets[0], ast.Name)]
    ctx.need(len(recv) >= 1, '%s: no `pk = ....receive_packet(...)` in run()' % CF)
    pkvar = recv[0].targets[0].id

    for loop, hits in loops:
        cbvar = loop.target.id
        itexpr = resolve_iter(run, loop)
        for call in hits:
            # ---- R1: match predicate = facts guarding the call -------------
            facts = []
            for n in g.nodes_containing(call):
                facts = list(g.facts_at(n))
                break
            # predicate may live in the comprehension that feeds the loop
            comp_ifs = []
            src = itexpr
            while isinstance(src, ast.Call) and dotted(src.func) in SNAPSHOT_CALLS and src.args:
                src = src.args[0]
            comp_var = None
            if isinstance(src, (ast.GeneratorExp, ast.ListComp)) and len(src.generators) == 1:
                comp_var = src.generators[0].target.id if isinstance(src.generators[0].target, ast.Name) else None
                for cond in src.generators[0].ifs:
                    comp_ifs.extend(implied(cond, True))
            preds = {}
            extra = []
            for f in facts + comp_ifs:
                var = comp_var if f in comp_ifs else cbvar
                kind = classify_match(f, var, pkvar)
                if kind:
                    preds.setdefault(kind[0], []).append(kind)
                elif mentions(f.node, var) and mentions(f.node, pkvar):
                    extra.append(f)
            if isinstance(call.args[0] if call.args else None, ast.Name):
                ctx.need(call.args[0].id == pkvar, 'callback is not invoked with the received packet')
            for field in ('port', 'channel'):
                got = preds.get(field, [])
                ok = len(got) == 1 and got[0][1] is True
                ctx.inst('R1', run, 'match:' + field, ok,
                         'callback invocation must be guarded by %s == (pk.%s & %s_mask); found %s' % (
                             field, field, field, [norm(f.node) for f in facts + comp_ifs if mentions(f.node, pkvar)] or 'no such test'))
            if extra:
                ctx.inst('R1', run, 'match:extra', False,
                         'additional packet-dependent condition restricts delivery: %s' % [repr(f) for f in extra])

            # ---- R3: exception barrier ---------------------------------------
            ok, why = barrier(run, loop, call)
            ctx.inst('R3', run, 'barrier:' + norm(call), ok, why)

        # ---- R2: snapshot iteration -----------------------------------------
        check_snapshot(ctx, run, klass, loop, itexpr)

    # ---- R2 for Caller.call -------------------------------------------------
    caller_rules(ctx, 'R2')

    # ---- R4: removal predicate ----------------------------------------------
    removal_predicate_rules(ctx, 'R4')

    # ---- R7: the library's own all-packet callback cannot raise on a well-formed table (shared with C10.R4) ------
    from .c10 import pattern_table_rules
    pattern_table_rules(ctx, 'R7')

    # ---- R5: one receive / one fan-out / one dispatch per iteration ---------
    wl = [n for n in g.nodes if n.kind == 'while']
    ctx.need(len(wl) == 1, 'run(): expected exactly one while loop')
    body_ids = {n.id for n in g.loop_body_nodes(wl[0])}
    ctx.inst('R5', run, 'single-receive', len(recv) == 1 and all(n.id in body_ids for n in g.nodes_of(recv[0])),
             'exactly one receive_packet per loop iteration; found %d' % len(recv))
    fan = g.find(lambda n: isinstance(n, ast.Call) and norm(n.func).endswith('packet_received.call'))
    ok = len(fan) == 1 and [norm(a) for a in fan[0][1].args] == [pkvar] and \
        fact_key('%s is None' % pkvar, False) in g.fact_keys_at(fan[0][0])
    ctx.inst('R5', run, 'single-fanout', ok, 'packet_received.call(pk) exactly once per packet, after the `pk is None` test')
    okd = len(loops) == 1
    if okd:
        ln = g.nodes_of(loops[0][0])
        okd = len(ln) == 1 and fact_key('%s is None' % pkvar, False) in g.fact_keys_at(ln[0]) and ln[0].id in body_ids
        # no nested re-dispatch: loop not inside another for/while other than the main one
    ctx.inst('R5', run, 'single-dispatch', okd, 'exactly one dispatch loop per received packet, after the None test; loops=%d' % len(loops))
    # the all-packet fan-out must not be conditional on anything else that depends on pk
    if fan:
        others = [f for f in g.facts_at(fan[0][0]) if mentions(f.node, pkvar) and f.key() != fact_key('%s is None' % pkvar, False)]
        ctx.inst('R5', run, 'fanout-unconditional', not others, 'extra conditions on the all-packet fan-out: %s' % others)

    # ---- R6: registration layout --------------------------------------------
    mod = m.mod(CF)
    ctx.need('_CallbackContainer' in mod.consts or '_CallbackContainer' in mod.classes, '_CallbackContainer declaration not found')
    decl = mod.consts.get('_CallbackContainer')
    fields = None
    # ... or declared as a typing.NamedTuple class (directly, or under another name the record name is bound to)
    kdecl = mod.classes.get(decl.id if isinstance(decl, ast.Name) else '_CallbackContainer' if decl is None else None)
    if kdecl is not None and any(norm(b).split('.')[-1] == 'NamedTuple' for b in kdecl.node.bases):
        fields = [st_.target.id for st_ in kdecl.node.body if isinstance(st_, ast.AnnAssign) and isinstance(st_.target, ast.Name)]
        if any(isinstance(st_, ast.AnnAssign) and st_.value is not None for st_ in kdecl.node.body) or any(isinstance(st_, ast.FunctionDef) for st_ in kdecl.node.body):
            fields = None                         # defaults / overridden methods: not the plain record any more
    if isinstance(decl, ast.Call) and len(decl.args) == 2:
        v = fold_in(run, decl.args[1])
        if isinstance(v, str):
            fields = v.replace(',', ' ').split()
        elif isinstance(v, (list, tuple)):
            fields = list(v)
    ctx.need(fields is not None, '_CallbackContainer field list not foldable')
    add = m.func(CF, '_IncomingPacketHandler.add_header_callback')
    cons = [c for c in walk_own(add.node) if isinstance(c, ast.Call) and dotted(c.func) == '_CallbackContainer']
    ctx.need(len(cons) == 1, 'add_header_callback: constructor call not found')
    got = [norm(x) for x in cons[0].args] + ['%s=%s' % (k.arg, norm(k.value)) for k in cons[0].keywords]
    want = []
    for f in fields:
        want.append('cb' if f == 'callback' else f)
    okl = got == want or sorted(got) == sorted('%s=%s' % (f, w) for f, w in zip(fields, want))
    ctx.inst('R6', add, 'container-order', okl, 'fields %s are filled with %s' % (fields, got))
    appended = [c for c in walk_own(add.node) if method_call(c, 'append') and norm(c.func.value) == 'self.cb']
    ctx.inst('R6', add, 'append-order', len(appended) == 1, 'registration must append (arrival order = registration order)')
    ga = cfg_of(add)
    apn = [n for n in ga.nodes if appended and any(x is appended[0] for x in (walk_own(n.ast) if n.ast is not None and n.kind == 'stmt' else []))]
    early = [n for n in ga.nodes if n.kind == 'return' and apn and not ga.dominates(apn[0], n)]
    okreg = bool(apn)
    why = 'every registration is recorded'
    for n in early:
        # a registration may only be refused as a duplicate of an entry that agrees on all five fields
        ents = {norm(f.left.value) if isinstance(f.left, ast.Attribute) else norm(f.right.value) for f in ga.facts_at(n) if f.op == '==' and f.pol and
                (isinstance(f.left, ast.Attribute) or isinstance(f.right, ast.Attribute))}
        full = any(g_eq_fields(ga.facts_at(n), e, add) == {'callback': 'cb', 'port': 'port', 'channel': 'channel', 'port_mask': 'port_mask', 'channel_mask': 'channel_mask'} for e in ents)
        if not full:
            okreg = False
            why = 'add_header_callback returns at line %d without recording a registration that differs from the existing one (only some of the five fields are compared)' % n.line
    ctx.inst('R6', add, 'every-distinct-registration-recorded', okreg, why)
    port_registration_rules(ctx, 'R6')
    # the public registration API of Crazyflie hands its arguments to the dispatcher unchanged and in the dispatcher's order
    K_ = m.cls(CF, 'Crazyflie')
    for wn in ('add_port_callback', 'remove_port_callback', 'add_header_callback', 'remove_header_callback'):
        if not (K_.has(wn) and klass.has(wn)):
            continue
        w_ = K_.method(wn)
        fw = [c for c in walk_own(w_.node) if isinstance(c, ast.Call) and norm(c.func) == 'self.incoming.%s' % wn]
        tgt = klass.method(wn)
        okw = len(fw) == 1 and not fw[0].keywords and [norm(a_) for a_ in fw[0].args] == w_.params[1:1 + len(fw[0].args)] and w_.params[1:] == tgt.params[1:] and len(fw[0].args) == len(tgt.params) - 1
        ctx.inst('R6', w_, 'api-forwards-arguments-in-order', okw, 'Crazyflie.%s%s forwards to the dispatcher\'s %s%s with %s' %
                 (wn, tuple(w_.params[1:]), wn, tuple(tgt.params[1:]), [norm(a_) for c in fw for a_ in c.args]))
    from .c08 import received_header_rules
    from .c08 import packet_contract_rules
    packet_contract_rules(ctx, 'R8', size=False)      # ... for every one of the 256 header bytes alike (shared with C08.R4)
    received_header_rules(ctx, 'R8')      # pk.port / pk.channel of a received packet are header bits 7..4 / 1..0 (shared with C08.R4)


def removal_predicate_rules(ctx, rule='R4'):
    """remove_header_callback drops an entry exactly when it EQUALS (==, the comparison bound methods support) the arguments on all five
    fields.  Shared with C02/C03: a finished TocFetcher unregisters a bound method; if that never matches, stale fetchers signal
    completion in the next session."""
    m = ctx.model
    rm = m.func(CF, '_IncomingPacketHandler.remove_header_callback')
    params = rm.params
    want = {'port': 'port', 'port_mask': 'port_mask', 'channel': 'channel', 'channel_mask': 'channel_mask', 'callback': 'cb'}
    sites = removal_sites(rm)
    ctx.need(sites is not None, 'remove_header_callback: removal idiom not recognised')
    in_place_rule(ctx, rule)
    # every registration is looked at: the removal loop runs over the whole table (an index range that stops short of entry 0, or
    # starts after it, leaves that registration in place for ever)
    lps = [l for l in walk_own(rm.node) if isinstance(l, ast.For)]
    whole = ('self.cb', 'list(self.cb)', 'self.cb[:]', 'tuple(self.cb)', 'self.cb.copy()', 'reversed(self.cb)', 'reversed(list(self.cb))', 'range(len(self.cb) - 1, -1, -1)',
             'reversed(range(len(self.cb)))', 'range(len(self.cb))', 'enumerate(self.cb)', 'enumerate(list(self.cb))')
    if lps and any(k.startswith(('remove@', 'index@', 'swap@')) for k, _ in sites):
        its = [norm(l.iter) for l in lps]
        ctx.inst(rule, rm, 'every-entry-examined', any(i in whole for i in its) or any(isinstance(l.iter, ast.Name) for l in lps),
                 'the removal loop iterates %s - not the whole registration table' % its)
    for key, keys in sites:
        for field, par in want.items():
            ok = keys.get(field) == par and par in params
            ctx.inst(rule, rm, 'remove-eq:' + field, ok, 'an entry may be dropped only if entry.%s == %s (equality, not identity: callbacks are bound methods); '
                     'equalities that hold for a dropped entry: %s' % (field, par, keys))


def port_registration_rules(ctx, rule='R6'):
    """add_port_callback / remove_port_callback: both address the entry (cb, port, channel 0, port mask 0xFF, channel mask 0x00), whether
    they delegate to the header variants (positional or keyword arguments, defaults of the callee filled in) or drop the entry themselves.
    Shared with C03 (a finished TocFetcher must really be unregistered)."""
    m = ctx.model
    addp = m.func(CF, '_IncomingPacketHandler.add_port_callback')
    rmp = m.func(CF, '_IncomingPacketHandler.remove_port_callback')
    for f, callee in ((addp, 'add_header_callback'), (rmp, 'remove_header_callback')):
        cs = [c for c in walk_own(f.node) if method_call(c, callee)]
        if f is rmp and not cs and removal_sites(rmp) is not None:
            # own removal instead of delegation: it must drop exactly the registration add_port_callback made (all five fields)
            wantp = {'port': 'port', 'callback': 'cb', 'channel': 0, 'port_mask': 0xff, 'channel_mask': 0}
            for key, keys in removal_sites(rmp):
                ctx.inst(rule, f, 'port-only-masks', all(keys.get(k) == v for k, v in wantp.items()),
                         'port-only unregistration must drop only the entry with channel 0 and masks (0xFF, 0x00) for this port and callback; equalities required of a dropped entry: %s' % keys)
            continue
        ctx.need(len(cs) == 1, '%s does not delegate to %s' % (f.qualname, callee))
        tgt = m.func(CF, '_IncomingPacketHandler.' + callee)
        params = tgt.params[1:]
        dflt = tgt.defaults()
        bound = {}
        for p_, a_ in zip(params, cs[0].args):
            bound[p_] = a_
        for k_ in cs[0].keywords:
            if k_.arg:
                bound[k_.arg] = k_.value
        vals = {}
        for p_ in params:
            v_ = bound.get(p_, dflt.get(p_))
            vals[p_] = None if v_ is None else (norm(v_) if isinstance(v_, ast.Name) else fold_in(f if p_ in bound else tgt, v_))
        want = {'cb': 'cb', 'port': 'port', 'channel': 0, 'port_mask': 0xff, 'channel_mask': 0}
        ctx.inst(rule, f, 'port-only-masks', vals == want,
                 'port-only (un)registration must use channel 0, masks (0xFF, 0x00) - defaults of %s included; effective arguments %s' % (callee, vals))
        # ... and every path of the function goes through that one delegation: no branch of its own that removes (or adds) entries by a
        # looser rule (`if not port:` also catches port 0) and no early exit before it
        gf_ = cfg_of(f)
        dn_ = gf_.node_of(cs[0])
        own = [norm(c_)[:60] for c_ in walk_own(f.node) if isinstance(c_, ast.Call) and isinstance(c_.func, ast.Attribute) and norm(c_.func.value) == 'self.cb' and
               c_.func.attr in ('remove', 'append', 'pop', 'clear', 'insert', 'extend')] + \
              [norm(s_)[:60] for s_ in walk_own(f.node) if isinstance(s_, (ast.Assign, ast.AugAssign, ast.Delete)) and
               any(norm(t_).startswith('self.cb') for t_ in (s_.targets if not isinstance(s_, ast.AugAssign) else [s_.target]))]
        every = dn_ is not None and ('n', dn_.id) in (gf_.dom().get(('n', gf_.exit.id)) or ())
        ctx.inst(rule, f, 'only-through-header-variant', not own and every,
                 '%s changes the table only by its one call of %s, on every path; own edits: %s' % (f.qualname, callee, own or 'none'))


def mentions(node, var):
    return any(isinstance(n, ast.Name) and n.id == var for n in ast.walk(node))


def classify_match(f, cbvar, pkvar):
    """fact  cb.F == (pk.F & cb.F_mask)  ->  (F, polarity)"""
    if f.op != '==':
        return None
    for a, b in ((f.left, f.right), (f.right, f.left)):
        if isinstance(a, ast.Attribute) and isinstance(a.value, ast.Name) and a.value.id == cbvar and \
                isinstance(b, ast.BinOp) and isinstance(b.op, ast.BitAnd):
            ops = [b.left, b.right]
            texts = sorted(norm(o) for o in ops)
            if texts == sorted(['%s.%s' % (pkvar, a.attr), '%s.%s_mask' % (cbvar, a.attr)]):
                return (a.attr, f.pol)
    return None


def g_eq_fields(facts, ent, func=None):
    """{field: parameter name or folded constant} for the facts  <ent>.<field> == <name or constant>."""
    out = {}
    for f in facts:
        if f.op == '==' and f.pol:
            for a, b in ((f.left, f.right), (f.right, f.left)):
                if isinstance(a, ast.Attribute) and norm(a.value) == ent:
                    if isinstance(b, ast.Name):
                        out[a.attr] = b.id
                    elif func is not None and isinstance(fold_in(func, b), int):
                        out[a.attr] = fold_in(func, b)
    return out


def removal_sites(func):
    """[(key, {field: value})]: for every way `func` drops entries of self.cb, the equalities that hold for a dropped entry.
    Recognised idioms: `self.cb.remove(x)` under guards, and `self.cb = [c for c in self.cb if <keep>]`.  None if neither is present."""
    g = cfg_of(func)
    out = []
    for node, call in g.find(lambda n: method_call(n, 'remove') and norm(n.func.value) == 'self.cb'):
        out.append(('remove@%d' % len(out), g_eq_fields(g.facts_at(node), norm(call.args[0]), func)))
    for st in walk_own(func.node):
        if isinstance(st, ast.Assign) and norm(st.targets[0]) in ('self.cb', 'self.cb[:]') and isinstance(st.value, ast.ListComp) and len(st.value.generators) == 1 \
                and norm(st.value.generators[0].iter) == 'self.cb' and norm(st.value.elt) == norm(st.value.generators[0].target):
            gen = st.value.generators[0]
            facts = [f for cond in gen.ifs for f in implied(cond, False)]          # facts that hold for a DROPPED entry
            if len(gen.ifs) == 1:
                out.append(('rebuild@%d' % len(out), g_eq_fields(facts, norm(gen.target), func)))
            else:
                out.append(('rebuild@%d' % len(out), {}))                            # several filters: dropped if any fails - no conjunction holds
    # by index:  for i in range(..): e = self.cb[i]; if <match e>: del self.cb[i]  (or self.cb.pop(i))
    for node in g.nodes:
        ix = None
        if node.kind == 'stmt' and isinstance(node.ast, ast.Delete) and len(node.ast.targets) == 1 and isinstance(node.ast.targets[0], ast.Subscript) and \
                norm(node.ast.targets[0].value) == 'self.cb' and isinstance(node.ast.targets[0].slice, ast.Name):
            ix = node.ast.targets[0].slice.id
        elif node.kind == 'stmt' and isinstance(node.ast, ast.Expr) and method_call(node.ast.value, 'pop') and norm(node.ast.value.func.value) == 'self.cb' and \
                len(node.ast.value.args) == 1 and isinstance(node.ast.value.args[0], ast.Name):
            ix = node.ast.value.args[0].id
        if ix is None:
            continue
        entry = 'self.cb[%s]' % ix
        for st in walk_own(func.node):
            if isinstance(st, ast.Assign) and len(st.targets) == 1 and isinstance(st.targets[0], ast.Name) and norm(st.value) == entry:
                entry = st.targets[0].id
        out.append(('index@%d' % len(out), g_eq_fields(g.facts_at(node), entry, func)))
    # snapshot / prune / swap:  tmp = list(self.cb); ... tmp.remove(x) ...; self.cb = tmp   - the same predicate, but not in place
    for st in walk_own(func.node):
        if isinstance(st, ast.Assign) and norm(st.targets[0]) == 'self.cb' and isinstance(st.value, ast.Name):
            tmp = st.value.id
            for node, call in g.find(lambda n, tmp=tmp: method_call(n, 'remove') and norm(n.func.value) == tmp):
                out.append(('swap@%d' % len(out), g_eq_fields(g.facts_at(node), norm(call.args[0]), func)))
    return out or None


def in_place_rule(ctx, rule):
    """Registrations are added from any thread with self.cb.append: a removal edits the same list object (remove / slice assignment /
    one-expression rebuild).  Pruning a copy taken earlier and assigning it back drops whatever was registered in between."""
    rm = ctx.model.func(CF, '_IncomingPacketHandler.remove_header_callback')
    swaps = [norm(st)[:50] for st in walk_own(rm.node) if isinstance(st, ast.Assign) and norm(st.targets[0]) == 'self.cb' and isinstance(st.value, ast.Name)]
    ctx.inst(rule, rm, 'table-edited-in-place', not swaps, 'the registration list is replaced by a pruned copy made earlier in the call: %s' % swaps)


def barrier(func, loop, call):
    """callback call inside try with catch-all handler that stays in the loop."""
    tries = [t for t in walk_own(loop) if isinstance(t, ast.Try) and
             any(call is c for s in t.body for c in walk_own(s))]
    if not tries:
        return False, 'callback invocation is not inside a try block'
    t = tries[-1]
    hs = [h for h in t.handlers if catches_everything(h)]
    if not hs:
        return False, 'no handler catches Exception (handlers: %s)' % [norm(h.type) if h.type else 'bare' for h in t.handlers]
    # handlers before the catch-all that leave the loop also break the barrier
    for h in t.handlers:
        for n in [x for s in h.body for x in walk_own(s)]:
            if isinstance(n, (ast.Raise, ast.Break, ast.Return)):
                return False, 'handler `except %s` leaves the dispatch loop via %s' % (
                    norm(h.type) if h.type else '', type(n).__name__.lower())
        if h is hs[0]:
            break
    for n in [x for s in t.finalbody for x in walk_own(s)]:
        if isinstance(n, (ast.Raise, ast.Break, ast.Return)):
            return False, 'finally block leaves the dispatch loop'
    # the handler itself must not be able to raise: only logging / traceback formatting of plain packet fields
    cbvar = loop.target.id if isinstance(loop.target, ast.Name) else None
    for h in t.handlers:
        for n in [x for s in h.body for x in walk_own(s)]:
            if isinstance(n, ast.Call):
                d = dotted(n.func) or ''
                if not (d.startswith(('logger.', 'logging.', 'traceback.')) or d in ('print', 'str', 'repr', 'format', 'type')):
                    return False, 'handler calls %s, which may raise and would end the dispatcher thread' % norm(n)[:50]
            if isinstance(n, ast.Attribute) and isinstance(n.value, ast.Attribute) and isinstance(n.value.value, ast.Name) and n.value.value.id == cbvar:
                return False, 'handler dereferences %s on an arbitrary user callable; AttributeError there escapes the barrier' % norm(n)
            if isinstance(n, ast.Subscript) and isinstance(n.ctx, ast.Load):
                return False, 'handler subscripts %s, which may raise' % norm(n)[:50]
    return True, 'try/except Exception around the invocation, handler stays in loop and cannot raise'


def caller_rules(ctx, rule='R2'):
    """Caller.call (the fan-out behind every public callback list): iterates a snapshot and invokes every registered callable once with
    the caller's arguments.  Shared with C04/C05 (a value / log sample is passed once to every registered callback)."""
    m = ctx.model
    call_f = m.func(CB, 'Caller.call')
    cklass = m.cls(CB, 'Caller')

    def is_plain_cb(c, loop):
        return isinstance(loop.target, ast.Name) and isinstance(c.func, ast.Name) and c.func.id == loop.target.id
    cl = dispatch_loops(call_f, is_plain_cb)
    ctx.need(len(cl) == 1, '%s: Caller.call has no single fan-out loop' % CB)
    check_snapshot(ctx, call_f, cklass, cl[0][0], resolve_iter(call_f, cl[0][0]), rule)
    # each registered callable is invoked exactly once with the caller's arguments
    loop, hits = cl[0]
    ok = len(hits) == 1 and [norm(a) for a in hits[0].args] == ['*' + (call_f.node.args.vararg.arg if call_f.node.args.vararg else '?')] \
        and not hits[0].keywords and loop in call_f.node.body
    ctx.inst(rule, call_f, 'fanout-args', ok, 'Caller.call must invoke each callable once with *args, unconditionally; found %s' % [norm(h) for h in hits])


def check_snapshot(ctx, func, klass, loop, itexpr, rule='R2'):
    snap = is_snapshot(itexpr)
    live = set() if snap else live_sources(itexpr)
    bad = []
    for attr in sorted(live):
        mut = class_mutators(klass, attr)
        if mut:
            bad.append((attr, mut))
    if not snap and not live and not isinstance(itexpr, (ast.Tuple, ast.List)):
        ctx.need(False, '%s: iterable of the fan-out loop not recognised: %s' % (func.qualname, norm(itexpr)))
    ctx.inst(rule, func, 'snapshot-iteration', not bad,
             'loop over %s invokes registered callables while iterating live list(s) %s that callbacks can mutate through %s'
             % (norm(itexpr)[:60], [b[0] for b in bad], [b[1] for b in bad]) if bad else 'iterates over a snapshot: %s' % norm(itexpr)[:60])


VARIANTS = [
    M('R6', CF, "        self.incoming.add_header_callback(cb, port, channel, port_mask, channel_mask)", "        self.incoming.add_header_callback(cb, port, channel, channel_mask, port_mask)", 'masks crossed in the public API'),
    M('R8', 'cflib/crtp/crtpstack.py', "        self._channel = header & 0x03", "        self._channel = header & 0x07", 'link bit leaks into the channel'),
    M('RG', CF, "                    import traceback\n\n                    logger.error('Exception while doing callback on port'", "                    logger.error('Exception while doing callback on port'", 'handler reads a name nothing binds'),
    M('R6', CF, "        self.remove_header_callback(cb, port, 0, 0xff, 0x0)", "        self.cb = [c for c in self.cb if not (c.port == port and c.callback == cb)]", 'port removal drops every registration of cb on the port'),
    B(CF, "        self.remove_header_callback(cb, port, 0, 0xff, 0x0)",
      "        self.cb = [c for c in self.cb if not (c.port == port and c.callback == cb and c.channel == 0 and c.port_mask == 0xFF and c.channel_mask == 0)]", 'own rebuild on all five fields'),
    M('R1', CF, 'if cb.port == (pk.port & cb.port_mask) and', 'if cb.port == pk.port and', 'port mask dropped'),
    M('R1', CF, 'cb.channel == (pk.channel & cb.channel_mask)]:', 'cb.channel == (pk.channel | cb.channel_mask)]:', '| instead of &'),
    M('R1', CF, 'cb.channel == (pk.channel & cb.channel_mask)]:', 'cb.channel == (pk.channel & cb.port_mask)]:', 'wrong mask'),
    M('R2', CB, 'copy_of_callbacks = list(self.callbacks)', 'copy_of_callbacks = self.callbacks', 'Caller.call without copy'),
    M('R2', CF, 'for cb in [cb for cb in self.cb', 'for cb in (cb for cb in self.cb', 'generator over live list',
      extra=[(CF, 'cb.channel == (pk.channel & cb.channel_mask)]:', 'cb.channel == (pk.channel & cb.channel_mask)):')]),
    M('R3', CF, '                except Exception:  # pylint: disable=W0703\n                    # Disregard',
      '                except KeyError:  # pylint: disable=W0703\n                    # Disregard', 'narrow handler'),
    M('R3', CF, "                                 traceback.format_exc())\n                if cb.port != 0xFF:",
      "                                 traceback.format_exc())\n                    break\n                if cb.port != 0xFF:", 'break in handler'),
    M('R4', CF, 'if port_callback.port == port and port_callback.port_mask == port_mask and \\\n                    port_callback.channel == channel and port_callback.channel_mask == channel_mask and \\\n                    port_callback.callback == cb:',
      'if port_callback.port == port and port_callback.callback == cb:', 'remove on port match only'),
    M('R5', CF, '            if pk is None:\n                continue\n\n            # All-packet callbacks\n            self.cf.packet_received.call(pk)',
      '            # All-packet callbacks\n            self.cf.packet_received.call(pk)\n            if pk is None:\n                continue\n', 'fan-out before None test'),
    M('R6', CF, 'self.add_header_callback(cb, port, 0, 0xff, 0x0)', 'self.add_header_callback(cb, port, 0, 0xff, 0x3)', 'port-only with channel mask'),
    M('R6', CF, 'self.cb.append(_CallbackContainer(port, port_mask,\n                                          channel, channel_mask, cb))',
      'self.cb.append(_CallbackContainer(port, channel,\n                                          port_mask, channel_mask, cb))', 'fields swapped'),
    B(CF, 'for cb in [cb for cb in self.cb', 'for cb in list(cb for cb in self.cb', 'list(generator) snapshot',
      extra=[(CF, 'cb.channel == (pk.channel & cb.channel_mask)]:', 'cb.channel == (pk.channel & cb.channel_mask))):')]),
    B(CB, 'copy_of_callbacks = list(self.callbacks)\n        for cb in copy_of_callbacks:', 'for cb in self.callbacks[:]:', 'slice copy'),
    B(CF, 'cb.port == (pk.port & cb.port_mask)', '(cb.port_mask & pk.port) == cb.port', 'operand order'),
]
