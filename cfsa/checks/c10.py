"""C10 - unanswered requests are retried until answered, and only then."""
import ast
import re

from ..astutil import dotted, method_call
from ..cfg import cfg_of, fact_key, implied, nonempty_keys, norm, walk_own
from ..dataflow import mentions
from ..consteval import resolve_class, Scope
from ..locks import regions
from ..flow import new_state_locals, unchanged_param
from ..mutate import B, M

PROP = 'C10'
CF = 'cflib/crazyflie/__init__.py'
DRIVERS = ['cflib/crtp/radiodriver.py', 'cflib/crtp/usbdriver.py', 'cflib/crtp/tcpdriver.py', 'cflib/crtp/udpdriver.py',
           'cflib/crtp/serialdriver.py', 'cflib/crtp/prrtdriver.py', 'cflib/crtp/cflinkcppdriver.py']
BASE = 'cflib/crtp/crtpdriver.py'

EXPLANATION = (
    'Static analysis of Crazyflie.send_packet/_check_for_answers/_no_answer_do_retry/close_link/_link_error_cb and the driver '
    'constructors (CFG dominators, edge-restricted reachability, class hierarchy): R1 a retry timer is armed only with an open link, '
    'a non-empty expectation and a driver that needs resending (first send) or a still-pending pattern (retry), is stored under the '
    'pattern and started, and fires the retry with the same packet and pattern; R2 on the retry path the transmission itself is '
    'unreachable unless the pattern is still pending; R3 an incoming packet cancels and deletes exactly the longest pending pattern that '
    'is a prefix of (header,)+data; R4 every removal/rebinding of the pattern table cancels the removed timers, and both ways a '
    'session ends (close_link, link error) empty the table; R5 every transmission is inside the send-lock region under link-is-not-None; '
    'R6 every CRTPDriver subclass initialises needs_resending at construction; R7 its value: False for USB/TCP/serial/cflinkcpp, '
    'radio = not safelink, base default True; R8 sent and received headers are normalised identically; R9 a driver whose send_packet refuses on a None handle leaves that handle None after close() on every returning path (exception handlers included). Timer-vs-reply timing itself is not decided; the lock + pending test make it irrelevant.')
ASSUMPTIONS = ['threading.Timer.cancel() prevents a timer that has not fired yet from firing',
               'drivers are the classes deriving from CRTPDriver in cflib/crtp']
FLOORS = {'R9': 1, 'R8': 1, 'R1': 8, 'R2': 2, 'R3': 6, 'R4': 9, 'R5': 2, 'R6': 7, 'R7': 6}

PAT = 'self._answer_patterns'


def _receiver(g, node, call):
    """the object a method is called on, read through a local that merely names it (`t = table[k]; t.cancel()`)"""
    return g.resolve_local(node, call.func.value)


def _runs_before(g, node, call, later):
    """``node`` (a call on some object) runs on every path to ``later``, or is skipped only when that object is None / false"""
    if g.dominates(node, later):
        return True
    allowed = set()
    for r in {norm(call.func.value), norm(_receiver(g, node, call))}:
        allowed |= {fact_key('%s is None' % r, False), fact_key(r, True)}
    extra = g.fact_keys_at(node) - g.fact_keys_at(later)
    return bool(extra) and extra <= allowed and g.path_avoiding(node, [later]) is not None


def _runs_before_or_after(g, popn, canceln, name):
    """the cancel of a popped timer runs on every path after the pop, or is skipped only when the popped value is None / false"""
    extra = g.fact_keys_at(canceln) - g.fact_keys_at(popn)
    return extra <= {fact_key('%s is None' % name, False), fact_key(name, True)}


def retransmission_rules(ctx, r1='R1', r2='R2', r5='R5'):
    """send_packet / _no_answer_do_retry: when a retry timer is armed, when a retry may transmit (pattern still pending, decided
    under the send lock) and what runs inside the lock.  Shared with C04: a write that was answered is not transmitted again -
    otherwise an old value reaches the device after a newer one and the cache no longer equals the device."""
    m = ctx.model
    sp = m.func(CF, 'Crazyflie.send_packet')
    g = cfg_of(sp)
    par = sp.params          # self, pk, expected_reply, resend, timeout
    ctx.need(par[:4] == ['self', 'pk', 'expected_reply', 'resend'], 'send_packet signature changed: %s' % par)

    sends = g.find(lambda n: method_call(n, 'send_packet') and norm(n.func.value) == 'self.link')
    if not sends:
        # the link taken from a local: the local must have been read from self.link while the send lock is held (read before the lock
        # is taken, it may be a link that was closed - and its retry timers dropped - while this sender waited for the lock)
        loc = g.find(lambda n: method_call(n, 'send_packet') and isinstance(n.func.value, ast.Name) and n.func.value.id not in sp.params)
        withs_ = [w for w in walk_own(sp.node) if isinstance(w, ast.With) and any('_send_lock' in norm(i.context_expr) for i in w.items)]
        locked_ = {id(x) for w in withs_ for s_ in w.body for x in walk_own(s_)}
        acq_ = g.find(lambda n: method_call(n, 'acquire') and '_send_lock' in norm(n.func.value))
        stale = []
        for n_, c_ in loc:
            for d_ in g.reaching_defs(n_, c_.func.value.id):
                dv_ = g.def_value(d_, c_.func.value.id)
                inside = d_.ast is not None and (id(d_.ast) in locked_ or any(g.dominates(a_[0], d_) for a_ in acq_))
                if dv_ is not None and norm(dv_) == 'self.link' and not inside:
                    stale.append('%s = self.link at line %d' % (c_.func.value.id, d_.line))
        ctx.inst(r2, sp, 'link-read-under-the-send-lock', bool(loc) and not stale, 'the link that transmits is read from self.link after the send lock was taken; read before: %s' % stale)
        ctx.need(not stale and len(loc) >= 1 and len({c_.func.value.id for _, c_ in loc}) == 1, 'send_packet: no transmission through self.link or one local read from it')
        sends = loc
    LR = norm(sends[0][1].func.value)        # the link as send_packet names it: self.link, or the local it was read into under the lock

    # ---- R1: timers ------------------------------------------------------------
    timers = g.find(lambda n: isinstance(n, ast.Call) and dotted(n.func) in ('Timer', 'threading.Timer'))
    ctx.need(len(timers) >= 2, 'send_packet: expected two Timer(...) sites (first send, retry), found %d' % len(timers))
    link_open = fact_key('%s is not None' % LR, True)
    n_first = n_retry = 0
    for n, c in timers:
        keys = g.fact_keys_at(n)
        is_retry = fact_key('resend', True) in keys
        if is_retry:
            n_retry += 1
            pend = [k for k in keys if k[1] and k[0].endswith(' in ' + PAT)]
            ok = link_open in keys and bool(pend)
            ctx.inst(r1, sp, 'retry-timer-guard', ok, 're-arming requires an open link and a still pending pattern; guards %s' % sorted(keys))
        else:
            n_first += 1
            want = [link_open, fact_key('len(expected_reply) > 0', True), fact_key('resend', False), fact_key('%s.needs_resending' % LR, True)]
            ok = all(w in keys for w in want)
            ctx.inst(r1, sp, 'first-timer-guard', ok,
                     'arming requires open link, non-empty expectation, not a resend, driver needs resending; guards %s' % sorted(keys))
        # stored under the pattern and started
        tv = None
        if isinstance(n.ast, ast.Assign) and isinstance(n.ast.targets[0], ast.Name):
            tv = n.ast.targets[0].id
        stored = [x for x in g.nodes if x.kind == 'stmt' and isinstance(x.ast, ast.Assign) and norm(x.ast.targets[0]).startswith(PAT + '[')
                  and tv and norm(x.ast.value) == tv and g.dominates(n, x)]
        started = [x for x, cc in g.find(lambda q: method_call(q, 'start')) if tv and norm(cc.func.value) == tv and g.dominates(n, x)]
        reach_send = all(g.path_avoiding(n, [s[0]], avoid=[x for x in stored + started]) is None or True for s in sends)
        ctx.inst(r1, sp, ('retry' if is_retry else 'first') + '-timer-stored-started', len(stored) >= 1 and len(started) >= 1 and reach_send,
                 'the new timer must be recorded in the pattern table and started (stored=%d, started=%d)' % (len(stored), len(started)))
        # key
        if stored:
            key = norm(stored[0].ast.targets[0].slice)
            kdef = [s for s in walk_own(sp.node) if isinstance(s, ast.Assign) and norm(s.targets[0]) == key and
                    any(g.dominates(dn, n) for dn in g.nodes_of(s))]
            ktxt = norm(kdef[-1].value) if kdef else key
            want = 'expected_reply' if is_retry else '(pk.header,) + expected_reply'
            ctx.inst(r1, sp, ('retry' if is_retry else 'first') + '-pattern', ktxt == want, 'pattern key is %s, expected %s' % (ktxt, want))
            # callback
            lam = c.args[1] if len(c.args) > 1 else None
            okl = isinstance(lam, ast.Lambda) and isinstance(lam.body, ast.Call) and norm(lam.body.func) == 'self._no_answer_do_retry' and \
                [norm(a) for a in lam.body.args] == ['pk', key]
            # functools.partial(self._no_answer_do_retry, pk, key) binds the same two values
            okl = okl or (isinstance(lam, ast.Call) and dotted(lam.func) in ('partial', 'functools.partial') and not lam.keywords and
                          [norm(a) for a in lam.args] == ['self._no_answer_do_retry', 'pk', key])
            ctx.inst(r1, sp, ('retry' if is_retry else 'first') + '-timer-callback', bool(okl),
                     'timer must fire self._no_answer_do_retry(pk, %s); found %s' % (key, norm(lam) if lam is not None else None))
            ctx.inst(r1, sp, ('retry' if is_retry else 'first') + '-timer-interval', norm(c.args[0]) == 'timeout' if c.args else False,
                     'timer interval must be the timeout argument')
    ctx.inst(r1, sp, 'timer-sites', n_first == 1 and n_retry == 1, 'one arming site for the first send and one for retries (first=%d retry=%d)' % (n_first, n_retry))
    retry = m.func(CF, 'Crazyflie._no_answer_do_retry')
    rc = [c for c in walk_own(retry.node) if method_call(c, 'send_packet')]
    spd = {k_: norm(v_) for k_, v_ in (sp.defaults() if callable(sp.defaults) else sp.defaults).items()}
    kws = {k.arg: norm(k.value) for k in rc[0].keywords} if len(rc) == 1 else {}
    kws = {k_: v_ for k_, v_ in kws.items() if k_ in ('expected_reply', 'resend') or spd.get(k_) != v_}      # a keyword that repeats send_packet's own default says nothing
    okr = len(rc) == 1 and [norm(a) for a in rc[0].args] == [retry.params[1]] and kws == {'expected_reply': retry.params[2], 'resend': 'True'}
    gr_ = cfg_of(retry)
    rn_ = gr_.node_of(rc[0]) if len(rc) == 1 else None
    ctx.inst(r1, retry, 'retry-unconditional', rn_ is not None and not gr_.fact_keys_at(rn_) and ('n', rn_.id) in (gr_.dom().get(('n', gr_.exit.id)) or ()),
             'an expired timer always retransmits (send_packet itself drops the retry when the request was answered or the link is gone): a guard here - on the connection '
             'state, say - stops the retries of a request made before the first packet arrived; guards %s' % (sorted(gr_.fact_keys_at(rn_)) if rn_ is not None else '?'))
    gsp_ = cfg_of(sp)
    uses_ = [n for n in gsp_.nodes if n.kind == 'stmt' and isinstance(n.ast, ast.Assign) and norm(n.ast.targets[0]) == 'pattern']
    ctx.inst(r1, sp, 'expectation-as-given', bool(uses_) and all(unchanged_param(gsp_, n, 'expected_reply') for n in uses_) and 'expected_reply' in sp.params,
             'the pattern is built from the expected_reply argument as the caller gave it (a shim that strips or rewrites leading bytes makes the real reply miss the pattern)')
    ctx.inst(r1, retry, 'retry-call', okr, 'retry must call send_packet(pk, expected_reply=pattern, resend=True); found %s' % [norm(c) for c in rc])

    # ---- R2: transmission on the retry path needs a pending pattern -------------
    removed = []
    tests = 0
    for e in g.edges:
        for f in e.facts():
            if f.text == 'resend' and f.pol is False:
                removed.append(e)
            if f.op == 'in' and norm(f.right) == PAT and f.pol is True:
                removed.append(e)
                tests += 1
    for n, c in sends:
        w = g.path_avoiding(g.entry, [n], avoid_edges=removed)
        ctx.inst(r2, sp, 'resend-needs-pending', w is None and tests >= 1,
                 'a retry reaches the transmission without the pattern being pending: %s' % (g.fmt_path(w) if w else 'no pending test at all'))
        keys = g.fact_keys_at(n)
        ctx.inst(r2, sp, 'send-needs-open-link', link_open in keys, 'transmission must be guarded by self.link is not None')

    # ---- R5: inside the lock region ---------------------------------------------
    regs, gl = regions(sp, 'self._send_lock')
    ctx.need(len(regs) == 1, 'send_packet: expected one _send_lock region, found %d' % len(regs))
    held = {n.id for n in regs[0].held}
    for n, c in gl.find(lambda q: method_call(q, 'send_packet') and norm(q.func.value) == LR):
        ctx.inst(r5, sp, 'send-under-lock', n.id in held, 'transmission must happen while _send_lock is held')
    for n, c in gl.find(lambda q: isinstance(q, ast.Compare) and norm(q) == '%s is not None' % LR):
        ctx.inst(r5, sp, 'link-test-under-lock', n.id in held, 'the link-open test must be made under the lock')
    esc = regs[0].escape(include_raise=True)
    ctx.inst(r5, sp, 'lock-released', esc is None, 'send lock not released on %s' % (gl.fmt_path(esc) if esc else ''))
    klass = m.cls(CF, 'Crazyflie')
    other = [(f, c) for f in klass.methods.values() if f.name != 'send_packet' for c in walk_own(f.node)
             if method_call(c, 'send_packet') and 'link' in norm(c.func.value).split('.')[-1:]]
    ctx.inst(r5, sp, 'single-transmit-site', not other, 'only send_packet may call the driver: also in %s' % [f.qualname for f, _ in other])

    return sp, g, LR


def check(ctx):
    m = ctx.model
    sp, g, LR = retransmission_rules(ctx)
    klass = m.cls(CF, 'Crazyflie')
    # ---- R3: longest-prefix match -------------------------------------------------
    ca = m.func(CF, 'Crazyflie._check_for_answers')
    ga = cfg_of(ca)
    pkp = ca.params[1]
    ddef = [s for s in walk_own(ca.node) if isinstance(s, ast.Assign) and norm(s.value) in ('(%s.header,) + tuple(%s.data)' % (pkp, pkp),)]
    ctx.inst('R3', ca, 'data=(header,)+payload', len(ddef) == 1, 'compared tuple must be (pk.header,) + tuple(pk.data)')
    dvar = norm(ddef[0].targets[0]) if ddef else 'data'
    loops = [n for n in ga.nodes if n.kind == 'for' and PAT in norm(n.ast.iter)]
    ctx.need(len(loops) == 1, '_check_for_answers: candidate loop not found')
    lp = loops[0]
    pv = norm(lp.ast.target)
    it = norm(lp.ast.iter)
    ctx.inst('R3', ca, 'candidates-snapshot', it in ('list(%s.keys())' % PAT, 'list(%s)' % PAT, 'tuple(%s)' % PAT, 'tuple(%s.keys())' % PAT),
             'candidates must be a snapshot of all pending patterns; iterates %s' % it)
    cancels = [(n, c) for n, c in ga.find(lambda n: method_call(n, 'cancel')) if norm(_receiver(ga, n, c)).startswith(PAT + '[')]
    dels = [n for n in ga.nodes if n.kind == 'stmt' and isinstance(n.ast, ast.Delete) and norm(n.ast.targets[0]).startswith(PAT + '[')]
    # `table.pop(k).cancel()` as one statement takes the entry out and cancels its timer: the same entry by construction
    popc = [n for n in ga.nodes if n.kind == 'stmt' and isinstance(n.ast, ast.Expr) and method_call(n.ast.value, 'cancel') and method_call(n.ast.value.func.value, 'pop') and
            norm(n.ast.value.func.value.func.value) == PAT and len(n.ast.value.func.value.args) == 1]
    if not dels and len(popc) == 1 and not cancels:
        dels = popc
        lm = norm(popc[0].ast.value.func.value.args[0])
        cancels = [(popc[0], popc[0].ast.value)]
        okc = True
        pops = []
    else:
        ctx.need(len(dels) == 1, '_check_for_answers: delete of the matched entry not found')
        lm = norm(dels[0].ast.targets[0].slice)
        okc = len(cancels) == 1 and norm(_receiver(ga, *cancels[0]).slice) == lm and _runs_before(ga, cancels[0][0], cancels[0][1], dels[0])
        pops = [norm(c)[:60] for c in walk_own(ca.node) if method_call(c, 'pop') and norm(c.func.value) == PAT]
    ctx.inst('R3', ca, 'cancel-and-delete-same-entry', okc, 'the deleted entry %s must have been cancelled first' % lm)
    ctx.inst('R3', ca, 'only-the-longest-match-is-removed', not pops and len(dels) == 1,
             'an incoming packet releases exactly one entry, the longest matching pattern found by comparing all candidates; a short cut that pops another key '
             '(a remembered length, the first match) cancels the wrong request: %s' % (pops or 'none'))
    # guards phrased in a new state variable of the function (a remembered length beside the remembered match ..): no verdict
    shadow = new_state_locals(ca)
    sk = [k for k in ga.fact_keys_at(dels[0]) if any(mentions(k[0], v_) for v_ in shadow)]
    ctx.need(not sk or bool(nonempty_keys(lm, True) & set(ga.fact_keys_at(dels[0]))), '_check_for_answers: the removal is guarded through new state %s (%s)' % (sorted(shadow), sk))
    ctx.inst('R3', ca, 'only-on-match', bool(nonempty_keys(lm, True) & set(ga.fact_keys_at(dels[0]))),
             'cancel/delete only when a match was found (len(%s) > 0)' % lm)
    ctx.inst('R3', ca, 'after-all-candidates', not any(n.id in {b.id for b in ga.loop_body_nodes(lp)} for n in [c[0] for c in cancels] + [dels[0]]),
             'the entry is cancelled after all candidates were compared')
    upd = [n for n in ga.loop_body_nodes(lp) if n.kind == 'stmt' and isinstance(n.ast, ast.Assign) and norm(n.ast.targets[0]) == lm]
    ctx.need(len(upd) == 1, '_check_for_answers: update of the longest match not found')
    keys = ga.fact_keys_at(upd[0])
    mv = norm(upd[0].ast.value)
    mdef = {norm(s.targets[0]): norm(s.value) for s in walk_own(lp.ast) if isinstance(s, ast.Assign)}
    mtxt = mdef.get(mv, mv)
    def _through(txt):
        # a fact about a local that holds the slice is a fact about the slice; `x[:n]` is `x[0:n]`
        for k_, v_ in mdef.items():
            if k_.isidentifier() and k_ not in (pv, dvar):
                txt = re.sub(r'\b%s\b' % re.escape(k_), v_, txt)
        return txt.replace('[:', '[0:')
    want_pref = {fact_key('%s == %s[0:len(%s)]' % (pv, dvar, pv), True)[0], fact_key('%s[0:len(%s)] == %s' % (dvar, pv, pv), True)[0]}
    def _fk(t_):
        try:
            return fact_key(t_, True)[0]
        except Exception:
            return t_
    pref_ok = any(k_[1] is True and (k_[0] in want_pref or _through(k_[0]) in want_pref or _fk(_through(k_[0])) in want_pref) for k_ in keys)
    mtxt = mtxt.replace('[:', '[0:')
    ctx.inst('R3', ca, 'match-is-prefix', pref_ok and mtxt in ('%s[0:len(%s)]' % (dvar, pv), pv),
             'a candidate matches iff it equals the leading len(p) items of the packet tuple; guards %s, kept value %s' % (sorted(keys), mtxt))
    lens = [k for k in keys if 'len(%s)' % pv in k[0] and 'len(%s)' % dvar in k[0]]
    ctx.inst('R3', ca, 'match-fits', all(k == fact_key('len(%s) <= len(%s)' % (pv, dvar), True) for k in lens),
             'a pattern exactly as long as the packet must still match (len(p) <= len(data)); length guards found %s' % lens)
    longer = [k for k in keys if k[0] in ('len(%s) < len(%s)' % (mv, lm), 'len(%s) < len(%s)' % (lm, mv))]
    okl = (('len(%s) < len(%s)' % (mv, lm), False) in keys) or (('len(%s) < len(%s)' % (lm, mv), True) in keys)
    sk2 = [k for k in keys if any(mentions(k[0], v_) for v_ in shadow)]
    ctx.need(okl or not sk2, '_check_for_answers: the longest-match test is phrased in new state %s (%s)' % (sorted(shadow), sk2))
    ctx.inst('R3', ca, 'keeps-longest', okl, 'the kept match must be the longest (len(match) >= / > len(longest)); guards %s' % longer)
    init_lm = [s for s in walk_own(ca.node) if isinstance(s, ast.Assign) and norm(s.targets[0]) == lm and norm(s.value) == '()']
    ctx.inst('R3', ca, 'starts-empty', len(init_lm) == 1, 'longest match starts as the empty tuple')
    reg = [c for c in walk_own(klass.method('__init__').node) if method_call(c, 'add_callback') and
           norm(c.func.value) == 'self.packet_received' and [norm(a) for a in c.args] == ['self._check_for_answers']]
    ctx.inst('R3', klass.method('__init__'), 'registered', len(reg) == 1, '_check_for_answers must see every received packet')

    # the answer check runs before the port callbacks of the same packet: a callback that sends its next request with the same pattern
    # must find the old timer already cancelled (otherwise the old reply cancels the new request, which is then never retried)
    runf = m.func(CF, '_IncomingPacketHandler.run')
    grun = cfg_of(runf)
    allp = grun.find(lambda q: method_call(q, 'call') and norm(q.func.value).endswith('packet_received'))
    portcb = grun.find(lambda q: isinstance(q, ast.Call) and isinstance(q.func, ast.Attribute) and q.func.attr == 'callback')
    ctx.inst('R3', runf, 'answers-checked-before-port-callbacks', len(allp) == 1 and bool(portcb) and all(grun.dominates(allp[0][0], n_) for n_, _ in portcb),
             'packet_received (which runs _check_for_answers) is called before the port callbacks of the packet')
    # ... through a fan-out that iterates a snapshot: _check_for_initial_packet_cb removes itself from packet_received during the first
    # packet; on the live list the next entry - _check_for_answers - would be skipped for that packet (shared rule, see C07.R2)
    from .c07 import caller_rules
    caller_rules(ctx, 'R3')

    # ---- R4: removals cancel ------------------------------------------------------
    for f in klass.methods.values():
        gf = None
        for st in walk_own(f.node):
            site = None
            if isinstance(st, ast.Assign) and any(norm(t) == PAT for t in st.targets) and f.name != '__init__':
                site = ('rebind', st)
            elif isinstance(st, ast.Expr) and method_call(st.value, 'clear') and norm(st.value.func.value) == PAT:
                site = ('clear', st)
            elif isinstance(st, ast.Delete) and any(norm(t).startswith(PAT + '[') for t in st.targets):
                site = ('del', st)
            elif isinstance(st, (ast.Expr, ast.Assign)) and any(method_call(c, 'pop') and norm(c.func.value) == PAT for c in walk_own(st)):
                site = ('pop', st)
            if not site:
                continue
            gf = gf or cfg_of(f)
            sn = gf.nodes_of(st)
            ctx.need(sn, 'statement not in CFG')
            if site[0] == 'pop':
                # t = table.pop(k[, None]) ... t.cancel(): the removed timer itself is cancelled (possibly under a None guard)
                tg = st.targets[0] if isinstance(st, ast.Assign) and isinstance(st.targets[0], ast.Name) else None
                cs = [n for n, c in gf.find(lambda q: method_call(q, 'cancel'))
                      if tg is not None and norm(c.func.value) == tg.id and any(d is sn[0] for d in gf.reaching_defs(n, tg.id)) and _runs_before_or_after(gf, sn[0], n, tg.id)]
                # `table.pop(k).cancel()`: cancelled in the same expression
                direct = isinstance(st, ast.Expr) and method_call(st.value, 'cancel') and method_call(st.value.func.value, 'pop') and norm(st.value.func.value.func.value) == PAT
                ctx.inst('R4', f, 'pop-cancels', len(cs) >= 1 or bool(direct), 'a pending pattern taken out of the table with pop() must have its timer cancelled')
                continue
            if site[0] == 'del':
                k = norm(st.targets[0].slice)
                cs = [n for n, c in gf.find(lambda q: method_call(q, 'cancel')) if norm(_receiver(gf, n, c)) == '%s[%s]' % (PAT, k) and _runs_before(gf, n, c, sn[0])]
                ctx.inst('R4', f, 'del-cancels', len(cs) >= 1, 'deleting a pending pattern must cancel its timer first')
            else:
                loops = [n for n in gf.nodes if n.kind == 'for' and norm(gf.resolve_local(n, n.ast.iter)) in ('%s.values()' % PAT, 'list(%s.values())' % PAT, 'tuple(%s.values())' % PAT)
                         and gf.dominates(n, sn[0])]
                okc = False
                for l in loops:
                    body = gf.loop_body_nodes(l)
                    cs = [b for b in body if b.kind == 'stmt' and any(method_call(c, 'cancel') and norm(c.func.value) == norm(l.ast.target) for c in walk_own(b.ast))]
                    tv = norm(l.ast.target)
                    if len(cs) == 1 and (gf.fact_keys_at(cs[0]) - gf.fact_keys_at(l)) <= {fact_key('%s is None' % tv, False), fact_key(tv, True)}:
                        okc = True              # every timer is cancelled (a None entry, which never occurs, may be skipped)
                ctx.inst('R4', f, site[0] + '-cancels-all', okc, 'dropping the pattern table must cancel every pending timer first')
    for fname in ('close_link', '_link_error_cb'):
        f = klass.method(fname)
        gf = cfg_of(f)
        nulls = [n for n in gf.nodes if n.kind == 'stmt' and isinstance(n.ast, ast.Assign) and norm(n.ast.targets[0]) == 'self.link'
                 and isinstance(n.ast.value, ast.Constant) and n.ast.value.value is None]
        ctx.need(nulls, '%s no longer nulls self.link' % fname)

        def empties(fn_):
            g_ = cfg_of(fn_)
            return [n for n in g_.nodes if n.kind == 'stmt' and (
                (isinstance(n.ast, ast.Assign) and norm(n.ast.targets[0]) == PAT and norm(n.ast.value) in ('{}', 'dict()')) or
                (isinstance(n.ast, ast.Expr) and method_call(n.ast.value, 'clear') and norm(n.ast.value.func.value) == PAT))], g_
        empt, _ = empties(f)
        sites = [e for e in empt if ('n', e.id) in (gf.dom().get(('n', gf.exit.id)) or ())]
        # ... or a same-class helper that does it on every path, called on every path
        for n, c in gf.find(lambda q: isinstance(q, ast.Call) and isinstance(q.func, ast.Attribute) and norm(q.func.value) == 'self' and klass.has(q.func.attr)):
            if ('n', n.id) not in (gf.dom().get(('n', gf.exit.id)) or ()):
                continue
            he, hg = empties(klass.method(c.func.attr))
            if any(('n', e.id) in (hg.dom().get(('n', hg.exit.id)) or ()) for e in he):
                sites.append(n)
        ctx.inst('R4', f, 'session-end-empties-patterns', len(sites) >= 1, 'ending a session must empty the pending-pattern table on every path')
        ok = bool(sites) and all(any(gf.dominates(nl, s_) for nl in nulls) or gf.path_avoiding(s_, nulls) is None for s_ in sites) and \
            all(gf.path_avoiding(s_, nulls) is None for s_ in sites)
        ctx.inst('R4', f, 'patterns-emptied-after-link-nulled', ok,
                 'the pending patterns must be cancelled AFTER the link is nulled: a request sent by another thread while the link is being closed would otherwise '
                 'arm a timer nobody cancels and be retransmitted in the next session')
        # ... and BEFORE the application hears about it: a callback may open the next session at once
        told = gf.find(lambda q: method_call(q, 'call') and norm(q.func.value).startswith('self.') and norm(q.func.value).split('.')[-1] in
                       ('connection_failed', 'disconnected', 'connection_lost', 'disconnected_link_error'))
        okb = bool(sites) and all(any(gf.dominates(s_, n) for s_ in sites) for n, _ in told)
        ctx.inst('R4', f, 'patterns-emptied-before-callbacks', okb and bool(told),
                 'pending requests are dropped before connection_failed / disconnected / connection_lost are signalled: a callback that re-opens the link must not find '
                 'retry timers of the old session still armed')

    pattern_table_rules(ctx, 'R4')

    # ---- R8: sent and received headers are normalised identically ------------------------------
    header_normalisation_rule(ctx, 'R8')
    from .c08 import packet_contract_rules
    packet_contract_rules(ctx, 'R8', size=False)      # a request without payload is still a packet (`if outPacket:` in the radio thread), headers decoded alike for every byte (shared with C08.R4)

    # ---- R6 / R7: drivers ------------------------------------------------------------
    base = m.cls(BASE, 'CRTPDriver')
    bset = init_value(base.method('__init__'))
    ctx.inst('R7', base.method('__init__'), 'base-default', bset == 'True', 'CRTPDriver default must be needs_resending = True (no delivery guarantee assumed); found %s' % bset)
    want = {'RadioDriver': 'True', 'UsbDriver': 'False', 'TcpDriver': 'False', 'SerialDriver': 'False', 'CfLinkCppDriver': 'False',
            'UdpDriver': 'True', 'PrrtDriver': 'True'}
    found = 0
    for path in DRIVERS:
        if not m.exists(path):
            continue
        mod = m.mod(path)
        for k in mod.all_classes():
            bases = [resolve_class(b, Scope(mod, k)) for b in k.node.bases]
            if not any(b is not None and b.name == 'CRTPDriver' for b in bases):
                continue
            found += 1
            if not k.has('__init__'):
                ctx.inst('R6', (path, k.qualname), 'inherits-init', True, 'no own __init__: base constructor runs')
                val = bset
            else:
                f = k.method('__init__')
                own = init_value(f)
                calls_base = any(norm(c.func) in ('CRTPDriver.__init__', 'super().__init__', 'super(%s, self).__init__' % k.name)
                                 for c in walk_own(f.node) if isinstance(c, ast.Call))
                ctx.inst('R6', f, 'initialises-needs_resending', own is not None or calls_base,
                         '%s.__init__ neither sets needs_resending nor calls the base constructor (AttributeError on the first request with an expected reply)' % k.name)
                val = own if own is not None else (bset if calls_base else None)
            closed_guard_rule(ctx, k)
            if k.name in want:
                ctx.inst('R7', (path, k.qualname), 'value', val == want[k.name], 'needs_resending after construction is %s, expected %s' % (val, want[k.name]))
    ctx.need(found >= 6, 'expected at least 6 CRTPDriver subclasses, found %d' % found)
    rt = m.func('cflib/crtp/radiodriver.py', '_RadioDriverThread.run')
    sl = [s for s in walk_own(rt.node) if isinstance(s, ast.Assign) and norm(s.targets[0]).endswith('.needs_resending')]
    ctx.inst('R7', rt, 'radio=not-safelink', len(sl) == 1 and norm(sl[0].value) == 'not self._has_safelink',
             'radio link needs resending exactly when safelink is off; found %s' % [norm(s) for s in sl])
    # ... and the flag it is computed from is final by then: no store to the safelink flag is reachable from the publication
    # (published before the negotiation, a safelink link is told to resend and every slow reply is answered with a duplicate request)
    if len(sl) == 1 and isinstance(sl[0].value, ast.UnaryOp):
        gr = cfg_of(rt)
        flag_ = norm(sl[0].value.operand)
        pub = gr.node_of(sl[0])
        later = [n for n in gr.nodes if n.kind == 'stmt' and isinstance(n.ast, (ast.Assign, ast.AugAssign)) and
                 any(norm(t) == flag_ for t in (n.ast.targets if isinstance(n.ast, ast.Assign) else [n.ast.target]))]
        stale = pub is not None and bool(later) and gr.path_avoiding(pub, later) is not None
        ctx.inst('R7', rt, 'radio-flag-final-when-published', pub is not None and not stale,
                 'needs_resending is derived from %s after the last store to it (a store is still reachable from the publication: %s)' % (flag_, stale))


def header_normalisation_rule(ctx, rule):
    """Patterns are built from pk.header of the packet sent (set by _update_header: bits 3..2 = 1) and compared with pk.header of the
    packet received (set by the constructor from the wire byte): both must force bits 3..2 to 1, or no answer ever matches."""
    from .. import bits as B_
    from ..consteval import Scope as _S
    m = ctx.model
    pk = m.cls('cflib/crtp/crtpstack.py', 'CRTPPacket')
    init, uh = pk.method('__init__'), pk.method('_update_header')
    hi = [s_ for s_ in walk_own(init.node) if isinstance(s_, ast.Assign) and norm(s_.targets[0]) == 'self.header']
    hu = [s_ for s_ in walk_own(uh.node) if isinstance(s_, ast.Assign) and norm(s_.targets[0]) == 'self.header']
    ctx.need(len(hi) == 1 and len(hu) == 1, 'CRTPPacket header stores not found')
    bi = B_.evaluate(hi[0].value, _S.of(init), {'header': 'h'}, {'h': 8})
    bu = B_.evaluate(hu[0].value, _S.of(uh), {'self._port': 'p', 'self.channel': 'c', 'self._channel': 'c'}, {'p': 8, 'c': 8})
    ctx.inst(rule, init, 'received-header-normalised', bi[2] == 1 and bi[3] == 1 and bu[2] == 1 and bu[3] == 1,
             'constructor header bits %s vs _update_header bits %s: bits 3..2 must be forced to 1 on both sides' % (B_.describe(bi, 8), B_.describe(bu, 8)))


def pattern_table_rules(ctx, rule):
    """Crazyflie._answer_patterns maps a pending pattern to its running retry timer: every value stored is a Timer created just before
    (the reply handler and both session-end paths call .cancel() on the values without a test).  Shared with C07: a None in the table
    makes _check_for_answers raise inside the dispatcher thread, outside the per-callback barrier, and no later packet is delivered."""
    K = ctx.model.cls(CF, 'Crazyflie')
    n = 0
    for f in K.methods.values():
        g = cfg_of(f)
        for node in g.nodes:
            if node.kind != 'stmt' or not isinstance(node.ast, ast.Assign):
                continue
            for t in node.ast.targets:
                if isinstance(t, ast.Subscript) and norm(t.value) == 'self._answer_patterns':
                    v = g.resolve_local(node, node.ast.value)
                    ok = isinstance(v, ast.Call) and norm(v.func) in ('Timer', 'threading.Timer')
                    n += 1
                    ctx.inst(rule, f, 'pattern-value-is-timer', ok, 'a value stored in the pending-pattern table must be a retry Timer (it is cancelled unconditionally later); stored %s' % norm(node.ast.value), line=node.line)
    ctx.need(n >= 2, 'stores into Crazyflie._answer_patterns not found')


def closed_guard_rule(ctx, k):
    """R9 - a driver whose send_packet refuses to transmit when a handle attribute is None ("closed") must leave that attribute None
    after close() on every path that returns, including the paths through close()'s own exception handlers."""
    if not (k.has('send_packet') and k.has('close')):
        return
    sp, cl = k.method('send_packet'), k.method('close')
    g = cfg_of(sp)
    guards = set()
    for n in g.nodes:
        if n.kind == 'return':
            for txt, pol in g.fact_keys_at(n):
                parts = txt.split(' is ')
                if pol and len(parts) == 2 and 'None' in parts:
                    other = parts[0] if parts[1] == 'None' else parts[1]
                    if other.startswith('self.') and ' ' not in other:
                        guards.add(other)
                if (not pol) and txt.startswith('self.') and ' ' not in txt and '(' not in txt:
                    guards.add(txt)
    for attr in sorted(guards):
        gc = cfg_of(cl, exceptional=True)
        nul = [n for n in gc.nodes if n.kind == 'stmt' and isinstance(n.ast, ast.Assign) and any(norm(t) == attr for t in n.ast.targets) and norm(n.ast.value) == 'None']
        esc = gc.path_avoiding(gc.entry, [gc.exit], avoid=nul)
        ctx.inst('R9', cl, 'closed-guard-set:' + attr, bool(nul) and esc is None,
                 'send_packet transmits unless %s is None, so close() must leave it None on every returning path%s' % (attr, '; path keeping it: ' + gc.fmt_path(esc) if esc else ''))


def init_value(f):
    """final constant stored to self.needs_resending in a constructor ('True'/'False'/other text/None)."""
    vals = [norm(s.value) for s in walk_own(f.node) if isinstance(s, ast.Assign) and any(norm(t) == 'self.needs_resending' for t in s.targets)]
    return vals[-1] if vals else None


VARIANTS = [
    M('R7', 'cflib/crtp/radiodriver.py', "        # Try up to 10 times to enable the safelink mode\n", "        self._link.needs_resending = not self._has_safelink\n        # Try up to 10 times to enable the safelink mode\n", 'flag published before the negotiation',
      extra=[('cflib/crtp/radiodriver.py', "                break\n        self._link.needs_resending = not self._has_safelink\n", "                break\n")]),
    M('R9', 'cflib/crtp/usbdriver.py', "                self.cfusb.close()\n        except Exception as e:", "                self.cfusb.close()\n                self.cfusb = None\n        except Exception as e:",
      'usb handle kept when the close fails', extra=[('cflib/crtp/usbdriver.py', "            pass\n        self.cfusb = None\n", "            pass\n")]),
    M('R1', CF, "                if len(expected_reply) > 0 and not resend and \\\n                        link.needs_resending:", "                if len(expected_reply) > 0 and not resend:", 'arm without needs_resending'),
    M('R1', CF, "                    self._answer_patterns[pattern] = new_timer\n                    new_timer.start()\n                elif resend:", "                    self._answer_patterns[pattern] = new_timer\n                elif resend:", 'first timer never started'),
    M('R1', CF, "        self.send_packet(pk, expected_reply=pattern, resend=True)", "        self.send_packet(pk, expected_reply=pattern)", 'retry without resend flag'),
    M('R2', CF, "                                     self._answer_patterns)\n                        return\n", "                                     self._answer_patterns)\n", 'F-10a reintroduced'),
    M('R3', CF, "                        if len(match) >= len(longest_match):", "                        if len(match) <= len(longest_match):", 'keeps shortest'),
    M('R3', CF, "                    if p == data[0:len(p)]:", "                    if p[0] == data[0]:", 'header-only match'),
    M('R3', CF, "            self._answer_patterns[longest_match].cancel()\n            del self._answer_patterns[longest_match]", "            del self._answer_patterns[longest_match]", 'delete without cancel'),
    M('R4', CF, "        for timer in list(self._answer_patterns.values()):\n            timer.cancel()\n        self._answer_patterns = {}\n        self.disconnected.call(self.link_uri)", "        self._answer_patterns = {}\n        self.disconnected.call(self.link_uri)", 'F-10b reintroduced'),
    M('R4', CF, "        for timer in list(self._answer_patterns.values()):\n            timer.cancel()\n        self._answer_patterns = {}\n        if (self.state == State.INITIALIZED):", "        if (self.state == State.INITIALIZED):", 'F-10d reintroduced'),
    M('R2', CF, "            link = self.link\n            if link is not None:\n                if len(expected_reply) > 0", "            link = self.link\n            if True:\n                if len(expected_reply) > 0", 'send on closed link'),
    M('R2', CF, "        self._send_lock.acquire()\n        try:\n            # Read the link once, a link error or close_link() on another\n            # thread sets it to None without taking the send lock\n            link = self.link\n", "        link = self.link\n        self._send_lock.acquire()\n        try:\n", 'link read before the send lock is taken'),
    M('R6', 'cflib/crtp/udpdriver.py', "        CRTPDriver.__init__(self)\n", "        None\n", 'F-10c reintroduced'),
    M('R7', 'cflib/crtp/usbdriver.py', "        self.needs_resending = False", "        self.needs_resending = True", 'usb resends'),
    M('R7', 'cflib/crtp/radiodriver.py', "self._link.needs_resending = not self._has_safelink", "self._link.needs_resending = self._has_safelink", 'radio inverted'),
    B(CF, "                        if len(match) >= len(longest_match):", "                        if len(match) > len(longest_match):", 'strict longer'),
    B(CF, "        for timer in list(self._answer_patterns.values()):\n            timer.cancel()\n        self._answer_patterns = {}\n        self.disconnected.call(self.link_uri)", "        for timer in list(self._answer_patterns.values()):\n            timer.cancel()\n        self._answer_patterns.clear()\n        self.disconnected.call(self.link_uri)", 'clear() instead of rebind'),
]
