"""Minimal unified-diff reader/applier (in memory), used to replay the seeded breaking
changes kept under /verif/seeded as overlays on the current tree."""
import re


class PatchError(Exception):
    pass


def parse(diff_text):
    """-> {path: [hunk]}, hunk = (old_start, [(tag, line)]) with tag in ' +-'"""
    files = {}
    cur = None
    hunk = None
    for line in diff_text.splitlines():
        if line.startswith('diff --git'):
            cur = None
            hunk = None
        elif line.startswith('+++ '):
            p = line[4:].strip()
            if p.startswith('b/'):
                p = p[2:]
            cur = files.setdefault(p, [])
            hunk = None
        elif line.startswith('--- '):
            continue
        elif line.startswith('@@'):
            mt = re.match(r'@@ -(\d+)(?:,(\d+))? \+(\d+)(?:,(\d+))? @@', line)
            if not mt or cur is None:
                raise PatchError('bad hunk header: ' + line)
            hunk = (int(mt.group(1)), [])
            cur.append(hunk)
        elif hunk is not None and line[:1] in (' ', '+', '-'):
            hunk[1].append((line[0], line[1:]))
        elif hunk is not None and line == '':
            hunk[1].append((' ', ''))
        elif line.startswith('\\'):
            continue
    return files


def apply_to_text(text, hunks):
    lines = text.split('\n')
    offset = 0
    for old_start, body in hunks:
        old = [l for t, l in body if t in ' -']
        new = [l for t, l in body if t in ' +']
        # trailing context added for blank lines by parse() may over-run: trim trailing blanks not present
        pos = None
        guess = old_start - 1 + offset
        for delta in sorted(range(-200, 201), key=abs):
            i = guess + delta
            if i < 0 or i + len(old) > len(lines):
                continue
            if lines[i:i + len(old)] == old:
                pos = i
                break
        if pos is None:
            raise PatchError('hunk at line %d does not apply' % old_start)
        lines[pos:pos + len(old)] = new
        offset += len(new) - len(old)
    return '\n'.join(lines)


def overlay_for(model, diff_text):
    """{path: new text} for every file touched by the diff, applied to the model's current sources."""
    out = {}
    for path, hunks in parse(diff_text).items():
        base = model.source(path) if model.exists(path) else ''          # a file the change adds
        out[path] = apply_to_text(base, hunks) if base else '\n'.join(l for _, body in hunks for t, l in body if t in ' +') + '\n'
    return out
