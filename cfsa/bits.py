"""Bit-provenance domain for integer expressions built from & | ^ << >> + and constants.

A value is a list of WIDTH entries (LSB first); each entry is 0, 1,
('in', name, k) = bit k of input ``name``, or None (unknown / mixed).
"""
import ast

from .cfg import norm
from .consteval import UNKNOWN, fold

WIDTH = 64


def const_bits(v):
    return [(v >> i) & 1 for i in range(WIDTH)]


def input_bits(name, width=WIDTH):
    return [('in', name, i) if i < width else 0 for i in range(WIDTH)]


def _or(a, b):
    out = []
    for x, y in zip(a, b):
        if x == 0:
            out.append(y)
        elif y == 0:
            out.append(x)
        elif x == 1 or y == 1:
            out.append(1)
        elif x == y:
            out.append(x)
        else:
            out.append(None)
    return out


def _and(a, b):
    out = []
    for x, y in zip(a, b):
        if x == 0 or y == 0:
            out.append(0)
        elif x == 1:
            out.append(y)
        elif y == 1:
            out.append(x)
        elif x == y:
            out.append(x)
        else:
            out.append(None)
    return out


def _xor(a, b):
    out = []
    for x, y in zip(a, b):
        if x == 0:
            out.append(y)
        elif y == 0:
            out.append(x)
        elif x in (0, 1) and y in (0, 1):
            out.append(x ^ y)
        else:
            out.append(None)
    return out


def _shl(a, k):
    return ([0] * k + a)[:WIDTH]


def _shr(a, k):
    return a[k:] + [0] * min(k, WIDTH)


def evaluate(node, scope, inputs, widths=None):
    """inputs: {expression text: symbolic name}.  widths: {name: bit width} (default WIDTH)."""
    widths = widths or {}
    t = norm(node)
    if t in inputs:
        return input_bits(inputs[t], widths.get(inputs[t], WIDTH))
    v = fold(node, scope) if scope is not None else UNKNOWN
    if v is not UNKNOWN and isinstance(v, int) and not isinstance(v, bool) and v >= 0:
        return const_bits(v)
    if isinstance(node, ast.BinOp):
        if isinstance(node.op, (ast.LShift, ast.RShift)):
            k = fold(node.right, scope) if scope is not None else UNKNOWN
            a = evaluate(node.left, scope, inputs, widths)
            if isinstance(k, int) and 0 <= k < WIDTH:
                return _shl(a, k) if isinstance(node.op, ast.LShift) else _shr(a, k)
            return [None] * WIDTH
        a = evaluate(node.left, scope, inputs, widths)
        b = evaluate(node.right, scope, inputs, widths)
        if isinstance(node.op, ast.BitOr):
            return _or(a, b)
        if isinstance(node.op, ast.BitAnd):
            return _and(a, b)
        if isinstance(node.op, ast.BitXor):
            return _xor(a, b)
        if isinstance(node.op, ast.Add):
            # addition of bit-disjoint operands is an OR
            if all(x == 0 or y == 0 for x, y in zip(a, b)):
                return _or(a, b)
            return [None] * WIDTH
        if isinstance(node.op, ast.Mult):
            # multiplication by a power of two
            for x, y in ((a, node.right), (b, node.left)):
                k = fold(y, scope) if scope is not None else UNKNOWN
                if isinstance(k, int) and k > 0 and k & (k - 1) == 0:
                    return _shl(x, k.bit_length() - 1)
            return [None] * WIDTH
    if isinstance(node, ast.Call) and norm(node.func) in ('int', 'bool') and len(node.args) == 1:
        return evaluate(node.args[0], scope, inputs, widths)
    return [None] * WIDTH


def field(bits, lo, n):
    return bits[lo:lo + n]


def is_input_field(bits, lo, n, name, src_lo=0):
    """bits[lo:lo+n] are exactly input bits name[src_lo:src_lo+n]."""
    return all(bits[lo + i] == ('in', name, src_lo + i) for i in range(n))


def describe(bits, upto=None):
    upto = upto or max([i for i, b in enumerate(bits) if b != 0] + [0]) + 1
    out = []
    for i in range(upto - 1, -1, -1):
        b = bits[i]
        out.append('?' if b is None else str(b) if b in (0, 1) else '%s[%d]' % (b[1], b[2]))
    return ' '.join(out)
