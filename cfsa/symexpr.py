"""Canonical forms for arithmetic expressions.

``canon(expr, scope)`` renders an expression so that behaviour-preserving
rewrites of straight-line arithmetic compare equal:

* constants (module/class constants, literal arithmetic) are folded;
* ``+ - * /`` over symbols are expanded to a sum of monomials with rational or
  float coefficients (``0.707*(a-b)`` == ``a*0.707 - 0.707*b``; ``d/v*v`` == ``d``);
* anything else (calls, subscripts, comparisons, bit operations) is an *atom*
  whose operands are canonicalised recursively.
"""
import ast
from fractions import Fraction

from .cfg import norm
from .consteval import UNKNOWN, fold


class Poly:
    """sum of coeff * prod(atom**exp)"""

    def __init__(self, terms=None):
        self.t = {}
        for k, v in (terms or {}).items():
            if v != 0:
                self.t[k] = v

    @staticmethod
    def const(c):
        return Poly({(): _num(c)})

    @staticmethod
    def atom(text):
        return Poly({((text, 1),): Fraction(1)})

    def is_const(self):
        return all(k == () for k in self.t)

    def const_value(self):
        return self.t.get((), Fraction(0))

    def __add__(self, o):
        t = dict(self.t)
        for k, v in o.t.items():
            t[k] = t.get(k, 0) + v
        return Poly(t)

    def __neg__(self):
        return Poly({k: -v for k, v in self.t.items()})

    def __sub__(self, o):
        return self + (-o)

    def __mul__(self, o):
        t = {}
        for k1, v1 in self.t.items():
            for k2, v2 in o.t.items():
                k = _mono_mul(k1, k2)
                t[k] = t.get(k, 0) + v1 * v2
        return Poly(t)

    def inverse(self):
        """1/self for single-term polynomials, else None."""
        if len(self.t) != 1:
            return None
        (k, v), = self.t.items()
        if v == 0:
            return None
        return Poly({tuple((a, -e) for a, e in k): (1 / v if not isinstance(v, Fraction) else Fraction(1) / v)})

    def render(self):
        if not self.t:
            return '0'
        parts = []
        for k in sorted(self.t, key=lambda k: (len(k), k)):
            v = self.t[k]
            mono = '*'.join(a if e == 1 else '%s**%d' % (a, e) for a, e in k)
            c = _fmt(v)
            if not k:
                parts.append(c)
            elif v == 1:
                parts.append(mono)
            elif v == -1:
                parts.append('-' + mono)
            else:
                parts.append('%s*%s' % (c, mono))
        s = ' + '.join(parts)
        return s.replace('+ -', '- ')


def _num(c):
    if isinstance(c, bool):
        return Fraction(int(c))
    if isinstance(c, int):
        return Fraction(c)
    if isinstance(c, float):
        if c == int(c) and abs(c) < 1e15:
            return Fraction(int(c))
        return c
    return c


def _fmt(v):
    if isinstance(v, Fraction):
        return str(v.numerator) if v.denominator == 1 else '%d/%d' % (v.numerator, v.denominator)
    return '%.12g' % v


def _mono_mul(a, b):
    d = {}
    for x, e in a + b:
        d[x] = d.get(x, 0) + e
    return tuple(sorted((x, e) for x, e in d.items() if e != 0))


def to_poly(node, scope):
    """-> Poly (never fails: unknown constructs become atoms)."""
    v = fold(node, scope) if scope is not None else UNKNOWN
    if v is not UNKNOWN and isinstance(v, (int, float)) and not isinstance(v, bool):
        return Poly.const(v)
    if isinstance(node, ast.BinOp):
        if isinstance(node.op, (ast.Add, ast.Sub, ast.Mult)):
            a, b = to_poly(node.left, scope), to_poly(node.right, scope)
            if isinstance(node.op, ast.Add):
                return a + b
            if isinstance(node.op, ast.Sub):
                return a - b
            return a * b
        if isinstance(node.op, ast.Div):
            a, b = to_poly(node.left, scope), to_poly(node.right, scope)
            inv = b.inverse()
            if inv is not None:
                return a * inv
            return Poly.atom('(%s)/(%s)' % (a.render(), b.render()))
    if isinstance(node, ast.UnaryOp) and isinstance(node.op, ast.USub):
        return -to_poly(node.operand, scope)
    if isinstance(node, ast.UnaryOp) and isinstance(node.op, ast.UAdd):
        return to_poly(node.operand, scope)
    return Poly.atom(atom_text(node, scope))


def atom_text(node, scope):
    """Canonical text of a non-arithmetic node; operands canonicalised."""
    v = fold(node, scope) if scope is not None else UNKNOWN
    if v is not UNKNOWN and isinstance(v, (int, float, str, bool, type(None), bytes, tuple)):
        return repr(v) if not isinstance(v, float) else _fmt(v)
    if isinstance(node, ast.Call):
        fn = norm(node.func)
        args = [canon(a, scope) if not isinstance(a, ast.Starred) else '*' + canon(a.value, scope) for a in node.args]
        args += ['%s=%s' % (k.arg, canon(k.value, scope)) for k in node.keywords]
        return '%s(%s)' % (fn, ', '.join(args))
    if isinstance(node, ast.Subscript):
        if isinstance(node.slice, ast.Slice):
            lo = canon(node.slice.lower, scope) if node.slice.lower else ''
            hi = canon(node.slice.upper, scope) if node.slice.upper else ''
            return '%s[%s:%s]' % (atom_text(node.value, scope), lo, hi)
        return '%s[%s]' % (atom_text(node.value, scope), canon(node.slice, scope))
    if isinstance(node, ast.IfExp):
        return '(%s if %s else %s)' % (canon(node.body, scope), canon(node.test, scope), canon(node.orelse, scope))
    if isinstance(node, ast.Compare) and len(node.ops) == 1:
        return '(%s %s %s)' % (canon(node.left, scope), _OPS.get(type(node.ops[0]), '?'), canon(node.comparators[0], scope))
    if isinstance(node, ast.BinOp):
        return '(%s %s %s)' % (canon(node.left, scope), _BOPS.get(type(node.op), '?'), canon(node.right, scope))
    if isinstance(node, ast.UnaryOp) and isinstance(node.op, ast.Not):
        return '(not %s)' % canon(node.operand, scope)
    if isinstance(node, ast.UnaryOp) and isinstance(node.op, ast.Invert):
        return '(~%s)' % canon(node.operand, scope)
    if isinstance(node, (ast.Tuple, ast.List)):
        return '[%s]' % ', '.join(canon(e, scope) for e in node.elts)
    if isinstance(node, ast.BoolOp):
        j = ' and ' if isinstance(node.op, ast.And) else ' or '
        return '(%s)' % j.join(canon(v, scope) for v in node.values)
    return norm(node)


_OPS = {ast.Eq: '==', ast.NotEq: '!=', ast.Lt: '<', ast.LtE: '<=', ast.Gt: '>', ast.GtE: '>=', ast.Is: 'is', ast.IsNot: 'is not',
        ast.In: 'in', ast.NotIn: 'not in'}
_BOPS = {ast.BitAnd: '&', ast.BitOr: '|', ast.BitXor: '^', ast.LShift: '<<', ast.RShift: '>>', ast.Mod: '%', ast.FloorDiv: '//',
         ast.Pow: '**', ast.MatMult: '@'}


def canon(node, scope=None):
    if node is None:
        return 'None'
    return to_poly(node, scope).render()
