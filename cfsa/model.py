"""Source model: lazily parsed modules of the analysed repository.

A ``Model`` reads files below ``root`` (``$VERIF_REPO`` or ``/repo``) or from an
in-memory *overlay* ``{relative path: source text}``.  Overlays are how mutants
(positive controls, corpus variants) are analysed without touching the disk.
"""
import ast
import os


class AnchorError(Exception):
    """An entity the rules are anchored on cannot be found / has an
    unrecognised shape.  Mapped to exit code 2 (ANALYSIS-ERROR), never to a
    VIOLATION."""


PACKAGES = ('cflib', 'lpslib')
_PARSE = {}


def repo_root():
    return os.environ.get('VERIF_REPO', '/repo')


class Func:
    """A function or method definition with its context."""

    def __init__(self, module, node, cls=None, parent=None):
        self.module = module
        self.node = node
        self.cls = cls            # Class or None
        self.parent = parent      # enclosing Func for nested defs
        self.name = node.name
        if parent is not None:
            self.qualname = parent.qualname + '.<locals>.' + node.name
        elif cls is not None:
            self.qualname = cls.qualname + '.' + node.name
        else:
            self.qualname = node.name

    @property
    def path(self):
        return self.module.path

    @property
    def params(self):
        a = self.node.args
        return [x.arg for x in a.posonlyargs + a.args] + \
            ([a.vararg.arg] if a.vararg else []) + \
            [x.arg for x in a.kwonlyargs] + \
            ([a.kwarg.arg] if a.kwarg else [])

    def defaults(self):
        """param name -> default expression node"""
        a = self.node.args
        pos = a.posonlyargs + a.args
        out = {}
        for p, d in zip(pos[len(pos) - len(a.defaults):], a.defaults):
            out[p.arg] = d
        for p, d in zip(a.kwonlyargs, a.kw_defaults):
            if d is not None:
                out[p.arg] = d
        return out

    def nested(self, name):
        for n in ast.walk(self.node):
            if isinstance(n, ast.FunctionDef) and n is not self.node and n.name == name:
                return Func(self.module, n, self.cls, self)
        raise AnchorError('%s: nested function %s.%s not found' % (self.path, self.qualname, name))

    def nested_all(self):
        out = []
        for n in ast.walk(self.node):
            if isinstance(n, ast.FunctionDef) and n is not self.node:
                out.append(Func(self.module, n, self.cls, self))
        return out

    def __repr__(self):
        return '<Func %s:%s>' % (self.path, self.qualname)


class Class:
    def __init__(self, module, node, outer=None):
        self.module = module
        self.node = node
        self.name = node.name
        self.qualname = (outer.qualname + '.' if outer else '') + node.name
        self.methods = {}
        self.consts = {}      # name -> value expr node (class-level simple assigns)
        self.inner = {}
        for st in node.body:
            if isinstance(st, ast.FunctionDef):
                self.methods[st.name] = Func(module, st, self)
            elif isinstance(st, ast.Assign):
                for t in st.targets:
                    if isinstance(t, ast.Name):
                        self.consts[t.id] = st.value
            elif isinstance(st, ast.AnnAssign) and isinstance(st.target, ast.Name) and st.value is not None:
                self.consts[st.target.id] = st.value
            elif isinstance(st, ast.ClassDef):
                self.inner[st.name] = Class(module, st, self)

    @property
    def path(self):
        return self.module.path

    @property
    def base_names(self):
        return [ast.unparse(b) for b in self.node.bases]

    def method(self, name):
        if name not in self.methods:
            raise AnchorError('%s: method %s.%s not found' % (self.path, self.qualname, name))
        return self.methods[name]

    def has(self, name):
        return name in self.methods


class Module:
    def __init__(self, model, path, text):
        self.model = model
        self.path = path
        self.text = text
        key = (path, hash(text), len(text), hash(tuple(sorted((k, hash(v)) for k, v in getattr(model, 'overlay', {}).items()))))
        if key not in _PARSE:
            try:
                tree = ast.parse(text, filename=path)
            except SyntaxError as e:   # a tree that does not parse cannot be analysed
                raise AnchorError('%s does not parse: %s' % (path, e))
            from . import alpha, unrefactor
            # inverse refactorings relative to the reference shape (new constants / helpers / explaining variables / conditional expressions)
            self.unrefactored = unrefactor.normalise(tree, path, alpha._ref().get(path), model=model)
            self.renamed = alpha.normalise(tree, path)      # locals that were merely renamed get their reference names back
            _PARSE[key] = tree
        self.tree = _PARSE[key]
        self.classes = {}
        self.functions = {}
        self.consts = {}
        self.imports = {}     # local alias -> dotted qualified name
        self._index(self.tree.body)

    def _index(self, body):
        for st in body:
            if isinstance(st, ast.ClassDef):
                self.classes[st.name] = Class(self, st)
            elif isinstance(st, ast.FunctionDef):
                self.functions[st.name] = Func(self, st)
            elif isinstance(st, ast.Assign):
                for t in st.targets:
                    if isinstance(t, ast.Name):
                        self.consts[t.id] = st.value
            elif isinstance(st, ast.AnnAssign) and isinstance(st.target, ast.Name) and st.value is not None:
                self.consts[st.target.id] = st.value
            elif isinstance(st, ast.Import):
                for a in st.names:
                    self.imports[a.asname or a.name.split('.')[0]] = a.name if a.asname else a.name.split('.')[0]
            elif isinstance(st, ast.ImportFrom):
                base = st.module or ''
                if st.level:
                    pkg = self.path[:-3].replace('/', '.').split('.')
                    if pkg[-1] == '__init__':
                        pkg = pkg[:-1]
                    else:
                        pkg = pkg[:-1]
                    pkg = pkg[:len(pkg) - (st.level - 1)]
                    base = '.'.join(pkg + ([st.module] if st.module else []))
                for a in st.names:
                    self.imports[a.asname or a.name] = base + '.' + a.name
            elif isinstance(st, (ast.If, ast.Try)):
                # conditional imports / definitions at module level
                for sub in ([st.body, st.orelse] if isinstance(st, ast.If)
                            else [st.body, st.orelse, st.finalbody] + [h.body for h in st.handlers]):
                    self._index(sub)

    def cls(self, name):
        cur = None
        for part in name.split('.'):
            table = self.classes if cur is None else cur.inner
            if part not in table:
                raise AnchorError('%s: class %s not found' % (self.path, name))
            cur = table[part]
        return cur

    def func(self, qual):
        """'f', 'Class.m', 'Outer.Inner.m'"""
        parts = qual.split('.')
        if len(parts) == 1:
            if qual not in self.functions:
                raise AnchorError('%s: function %s not found' % (self.path, qual))
            return self.functions[qual]
        return self.cls('.'.join(parts[:-1])).method(parts[-1])

    def has_func(self, qual):
        try:
            self.func(qual)
            return True
        except AnchorError:
            return False

    def all_funcs(self):
        out = list(self.functions.values())

        def rec(c):
            out.extend(c.methods.values())
            for i in c.inner.values():
                rec(i)
        for c in self.classes.values():
            rec(c)
        return out

    def all_classes(self):
        out = []

        def rec(c):
            out.append(c)
            for i in c.inner.values():
                rec(i)
        for c in self.classes.values():
            rec(c)
        return out


class Model:
    def __init__(self, root=None, overlay=None):
        self.root = root or repo_root()
        self.overlay = dict(overlay or {})
        self._mods = {}
        self.consulted = []

    def with_overlay(self, overlay):
        ov = dict(self.overlay)
        ov.update(overlay)
        return Model(self.root, ov)

    def source(self, path):
        if path in self.overlay:
            return self.overlay[path]
        full = os.path.join(self.root, path)
        if not os.path.isfile(full):
            raise AnchorError('file %s not found in %s' % (path, self.root))
        with open(full, encoding='utf-8') as f:
            return f.read()

    def exists(self, path):
        return path in self.overlay or os.path.isfile(os.path.join(self.root, path))

    def mod(self, path):
        if path not in self._mods:
            self._mods[path] = Module(self, path, self.source(path))
            self.consulted.append(path)
        return self._mods[path]

    def func(self, path, qual):
        return self.mod(path).func(qual)

    def cls(self, path, name):
        return self.mod(path).cls(name)

    def all_paths(self):
        out = []
        for pkg in PACKAGES:
            base = os.path.join(self.root, pkg)
            for dp, dn, fn in os.walk(base):
                dn[:] = sorted(d for d in dn if d != '__pycache__')
                for f in sorted(fn):
                    if f.endswith('.py'):
                        out.append(os.path.relpath(os.path.join(dp, f), self.root))
        for p in self.overlay:
            if p not in out:
                out.append(p)
        return sorted(out)

    def all_modules(self):
        return [self.mod(p) for p in self.all_paths()]

    def module_by_dotted(self, dotted):
        """'cflib.crtp.crtpstack' -> Module or None"""
        p = dotted.replace('.', '/')
        for cand in (p + '.py', p + '/__init__.py'):
            if self.exists(cand):
                return self.mod(cand)
        return None
