"""Alpha-normalisation of local variable names against a reference map.

Many rules address local variables by the names they have in today's tree.  A
behaviour-preserving rename of locals must not change a verdict, so before
analysis every function whose locals were merely renamed is mapped back to
the reference names: the i-th local *in order of first binding* takes the i-th
reference name.  The map (``oracles/local_names.json``) only records names - it
is an addressing aid, never an oracle: verdicts still come from the rules run
on the (renamed) current code.  Functions whose number of locals changed are
left untouched.
"""
import ast
import json
import os

_REF = None


def _ref():
    global _REF
    if _REF is None:
        p = os.path.join(os.path.dirname(os.path.dirname(os.path.abspath(__file__))), 'oracles', 'local_names.json')
        try:
            with open(p) as f:
                _REF = json.load(f)
        except (OSError, ValueError):
            _REF = {}
    return _REF


def binding_order(fn):
    """local names of a function in order of first binding (params, globals, nested defs' locals excluded)"""
    params = {a.arg for a in fn.args.posonlyargs + fn.args.args + fn.args.kwonlyargs}
    if fn.args.vararg:
        params.add(fn.args.vararg.arg)
    if fn.args.kwarg:
        params.add(fn.args.kwarg.arg)
    declared = set()
    order = []

    def add(n):
        if n not in order:
            order.append(n)

    def visit(node):
        for c in ast.iter_child_nodes(node):
            if isinstance(c, (ast.FunctionDef, ast.AsyncFunctionDef, ast.ClassDef)):
                declared.add(c.name)
                continue
            if isinstance(c, ast.Lambda):
                continue
            if isinstance(c, (ast.Global, ast.Nonlocal)):
                declared.update(c.names)
            if isinstance(c, (ast.Import, ast.ImportFrom)):
                for a in c.names:
                    declared.add((a.asname or a.name).split('.')[0])
            # evaluation order: value before targets does not matter for naming, source order does
            if isinstance(c, ast.Name) and isinstance(c.ctx, (ast.Store, ast.Del)):
                add(c.id)
            if isinstance(c, ast.ExceptHandler) and c.name:
                add(c.name)
            visit(c)
    # source order: sort statements by position through a pre-order walk that follows field order
    visit(fn)
    return [n for n in order if n not in params and n not in declared]


def functions(tree):
    """[(qualname, FunctionDef)] incl. methods and nested functions"""
    out = []

    def rec(node, prefix):
        for c in ast.iter_child_nodes(node):
            if isinstance(c, ast.ClassDef):
                rec(c, prefix + c.name + '.')
            elif isinstance(c, (ast.FunctionDef, ast.AsyncFunctionDef)):
                out.append((prefix + c.name, c))
                rec(c, prefix + c.name + '.<locals>.')
            elif isinstance(c, (ast.If, ast.Try, ast.With, ast.For, ast.While)):
                rec(c, prefix)
    rec(tree, '')
    return out


class _Rename(ast.NodeTransformer):
    def __init__(self, mapping):
        self.m = mapping

    def visit_Name(self, n):
        if n.id in self.m:
            n.id = self.m[n.id]
        return n

    def visit_ExceptHandler(self, n):
        if n.name in self.m:
            n.name = self.m[n.name]
        self.generic_visit(n)
        return n

    def visit_FunctionDef(self, n):
        # nested function: only free uses of the outer locals are renamed; its own params/locals shadow
        own = {a.arg for a in n.args.posonlyargs + n.args.args + n.args.kwonlyargs}
        inner = {k: v for k, v in self.m.items() if k not in own}
        sub = _Rename(inner)
        n.body = [sub.visit(s) for s in n.body]
        return n

    def visit_Lambda(self, n):
        own = {a.arg for a in n.args.args}
        sub = _Rename({k: v for k, v in self.m.items() if k not in own})
        n.body = sub.visit(n.body)
        return n


def normalise(tree, path):
    """Rename locals of functions in ``tree`` back to the reference names where only names changed. Returns #functions renamed."""
    ref = _ref().get(path)
    if not ref or os.environ.get('VERIF_NO_ALPHA'):
        return 0
    n = 0
    for qual, fn in functions(tree):
        want = ref.get(qual)
        if not want:
            continue
        have = binding_order(fn)
        if have == want:
            continue
        # names that exist on both sides keep their meaning; only names unknown to the reference are mapped,
        # in order of first binding, onto the reference names that went missing
        unknown = [h for h in have if h not in want]
        missing = [w for w in want if w not in have]
        if not unknown or len(unknown) != len(missing):
            continue
        mapping = dict(zip(unknown, missing))
        # all other identifiers used in the function (params, globals, attributes are not Names)
        used = {x.id for x in ast.walk(fn) if isinstance(x, ast.Name)} - set(have)
        if any(w in used for w in mapping.values()) or len(set(mapping.values())) != len(mapping):
            continue
        # two-step rename to survive permutations
        tmp = {h: '\x00%d' % i for i, h in enumerate(mapping)}
        back = {tmp[h]: mapping[h] for h in mapping}
        r1, r2 = _Rename(tmp), _Rename(back)
        fn.body = [r1.visit(s) for s in fn.body]
        fn.body = [r2.visit(s) for s in fn.body]
        n += 1
    return n
