"""Rule instances, findings, known-finding matching, evidence."""
import json
import os
import time

from .model import AnchorError

VERIF = os.path.dirname(os.path.dirname(os.path.abspath(__file__)))
KNOWN_PATH = os.path.join(VERIF, 'known_findings.json')


def load_known():
    if not os.path.isfile(KNOWN_PATH):
        return []
    with open(KNOWN_PATH) as f:
        return json.load(f)


class Instance:
    __slots__ = ('rule', 'file', 'function', 'key', 'ok', 'detail', 'line', 'unrecognised', 'reads')

    def __init__(self, rule, file, function, key, ok, detail, line):
        self.rule, self.file, self.function, self.key = rule, file, function, key
        self.ok, self.detail, self.line = ok, detail, line
        self.unrecognised = None
        self.reads = ()          # further functions the verdict was read from: [(path, qualname)]

    def as_dict(self):
        return {'rule': self.rule, 'file': self.file, 'function': self.function, 'key': self.key,
                'verdict': 'holds' if self.ok else 'VIOLATED', 'detail': self.detail, 'line': self.line}

    def ident(self):
        return (self.rule, self.file, self.function, self.key)


class Ctx:
    """Collects rule instances for one property on one model."""

    def __init__(self, prop, model, tier='quick'):
        self.prop = prop
        self.model = model
        self.tier = tier
        self.instances = []
        self.notes = []
        self.functions = set()
        self.assumptions = []

    # -- recording -----------------------------------------------------------
    def inst(self, rule, where, key, ok, detail='', line=None, reads=()):
        """Record one rule instance.  ``where`` is a model.Func, a
        (path, function-name) pair or a path."""
        if hasattr(where, 'qualname'):
            file, fn = where.path, where.qualname
            if line is None:
                line = where.node.lineno
            self.functions.add((file, fn))
        elif isinstance(where, tuple):
            file, fn = where
        else:
            file, fn = where, ''
        rid = rule if rule.startswith(self.prop) else '%s.%s' % (self.prop, rule)
        i = Instance(rid, file, fn, key, bool(ok), detail, line or 0)
        i.reads = tuple((f_.path, f_.qualname) if hasattr(f_, 'qualname') else tuple(f_) for f_ in reads)
        self.instances.append(i)
        return bool(ok)

    def touch(self, func):
        self.functions.add((func.path, func.qualname))

    def need(self, cond, msg):
        if not cond:
            raise AnchorError(msg)

    def note(self, s):
        self.notes.append(s)

    def assume(self, s):
        if s not in self.assumptions:
            self.assumptions.append(s)

    # -- results -------------------------------------------------------------
    def violations(self):
        # (instances in functions rewritten beyond recognition give no verdict: recognise.guard)
        return [i for i in self.instances if not i.ok and not getattr(i, 'unrecognised', None)]

    def by_rule(self):
        out = {}
        for i in self.instances:
            out.setdefault(i.rule, []).append(i)
        return out


def match_known(inst, known, prop):
    for k in known:
        if k.get('status') != 'known' or k.get('property') != prop:
            continue
        c = k.get('construct', {})
        if k.get('rule') == inst.rule and c.get('file') == inst.file and \
                c.get('function') == inst.function and c.get('key') == inst.key:
            return k
    return None


def write_evidence(prop, tier, seed, coverage, assumptions, wall, nviol):
    if os.environ.get('VERIF_NO_EVIDENCE'):      # evaluation of scratch copies must not overwrite the evidence of /repo
        return None
    os.makedirs(os.path.join(VERIF, 'evidence'), exist_ok=True)
    ev = {
        'property_id': prop, 'tier': tier, 'seed': seed, 'level': 'other',
        'coverage': coverage, 'assumptions': assumptions, 'wall_s': round(wall, 3),
        'violations': nviol,
    }
    path = os.path.join(VERIF, 'evidence', prop + '.json')
    tmp = path + '.tmp'
    with open(tmp, 'w') as f:
        json.dump(ev, f, indent=1, sort_keys=False)
        f.write('\n')
    os.replace(tmp, path)
    return path


def write_replay(prop, n, payload):
    if os.environ.get('VERIF_NO_EVIDENCE'):
        return '/dev/null'
    d = os.path.join(VERIF, 'out', prop)
    os.makedirs(d, exist_ok=True)
    path = os.path.join(d, 'violation_%d.json' % n)
    with open(path, 'w') as f:
        json.dump(payload, f, indent=1)
        f.write('\n')
    return path


class Timer:
    def __init__(self):
        self.t0 = time.time()

    def s(self):
        return time.time() - self.t0
