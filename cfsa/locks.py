"""Lock objects, acquire/release sites and held regions."""
import ast

from .astutil import dotted, method_call
from .cfg import cfg_of, norm, walk_own

LOCK_CTORS = ('Lock', 'threading.Lock', 'RLock', 'threading.RLock')


def class_locks(klass):
    """{attr text ('self._x'): ctor} for locks created in any method of the class."""
    out = {}
    for m in klass.methods.values():
        for st in walk_own(m.node):
            if isinstance(st, ast.Assign) and isinstance(st.value, ast.Call) and dotted(st.value.func) in LOCK_CTORS:
                for t in st.targets:
                    out[norm(t)] = dotted(st.value.func)
    for name, v in klass.consts.items():
        if isinstance(v, ast.Call) and dotted(v.func) in LOCK_CTORS:
            out[klass.name + '.' + name] = dotted(v.func)
    return out


class Region:
    def __init__(self, func, g, lock, acq, rels, style):
        self.func, self.g, self.lock, self.acq, self.rels, self.style = func, g, lock, acq, rels, style
        self.held = self._held()

    def _held(self):
        """nodes executed while the lock is held (after acq, before any release)."""
        rel_ids = {r.id for r in self.rels}
        out = {}
        todo = [e.dst for e in self.acq.succ if e.label != ('raise',)]
        while todo:
            n = todo.pop()
            if n.id in out or n.id in rel_ids:
                continue
            if n in (self.g.exit, self.g.raise_exit):
                continue
            out[n.id] = n
            todo.extend(e.dst for e in n.succ)
        return list(out.values())

    def escape(self, include_raise=False):
        """A path from the acquire to an exit that never releases, or None."""
        targets = [self.g.exit] + ([self.g.raise_exit] if include_raise else [])
        # do not leave through the acquire's own exception edge (lock was not taken)
        avoid_e = [e for e in self.acq.succ if e.label == ('raise',)]
        return self.g.path_avoiding(self.acq, targets, avoid=self.rels, avoid_edges=avoid_e)


def regions(func, lock_text, exceptional=False, may_raise=None):
    """Mutex-style regions of ``lock_text`` (e.g. 'self._lock') in func."""
    from .cfg import CFG
    g = CFG(func.node, exceptional, may_raise) if (exceptional or may_raise) else cfg_of(func)
    acqs, rels = [], []
    for n in g.nodes:
        if n.ast is None:
            continue
        if n.kind == 'with_enter' and any(norm(i.context_expr) == lock_text for i in n.ast.items):
            acqs.append((n, 'with'))
        elif n.kind == 'with_exit' and any(norm(i.context_expr) == lock_text for i in n.ast.items):
            rels.append(n)
        elif n.kind in ('stmt', 'if', 'while', 'return'):
            from .cfg import _own_exprs
            for root in _own_exprs(n.ast):
                for c in walk_own(root):
                    if method_call(c, 'acquire') and norm(c.func.value) == lock_text:
                        acqs.append((n, 'call'))
                    elif method_call(c, 'release') and norm(c.func.value) == lock_text:
                        rels.append(n)
    return [Region(func, g, lock_text, a, rels, style) for a, style in acqs], g
