"""Path enumeration with forward substitution ("symbolic summaries").

This is *not* solver-based symbolic execution: no constraint is ever solved.
A function body is walked path by path (structured control flow), local
names and simple attribute/subscript targets are forward-substituted into
later expressions, and every call/store/return is recorded with its
substituted operands and the list of branch conditions of the path.  The
result is a finite set of *summaries* in terms of the function's parameters
and ``self`` state, which rules compare against tables.

Loops are not unrolled: variables assigned in a loop are havocked (replaced
by an opaque ``<name>@loop`` symbol) and the body is summarised once with
events flagged ``in_loop``.
"""
import ast
import copy

from .cfg import norm
from .consteval import UNKNOWN, Scope, fold


class Event:
    __slots__ = ('kind', 'node', 'orig', 'in_loop', 'conds', 'stmt', 'defs')

    def __init__(self, kind, node, orig, in_loop, conds, stmt, defs=None):
        self.kind, self.node, self.orig, self.in_loop, self.conds, self.stmt = kind, node, orig, in_loop, conds, stmt
        self.defs = defs or {}

    def expanded(self, node=None):
        """The event's node with opaque local names replaced by their definitions
        (results of non-pure calls), one level."""
        return subst(node if node is not None else self.node, self.defs)

    @property
    def text(self):
        return norm(self.node)

    def __repr__(self):
        return '<%s %s%s>' % (self.kind, self.text[:80], ' @loop' if self.in_loop else '')


class Path:
    def __init__(self):
        self.env = {}
        self.defs = {}       # name -> last bound (substituted) value, also for opaque names
        self.conds = []      # [(substituted test node, polarity, original test)]
        self.events = []
        self.outcome = None  # ('return', node|None) / ('raise', node|None) / ('fall', None) / ('break',)/('continue',)
        self.loop_depth = 0
        self.ver = {}        # name -> number of bindings so far (identity of an opaque value)
        self.decided = {}    # (canonical test text, versions of its names) -> truth value taken on this path
        self.conds_defs = [] # [(test with opaque locals replaced by the expression they were bound to, polarity)] for name-only tests

    def fork(self):
        p = Path()
        p.ver = dict(self.ver)
        p.decided = dict(self.decided)
        p.conds_defs = list(self.conds_defs)
        p.env = dict(self.env)
        p.defs = dict(self.defs)
        p.conds = list(self.conds)
        p.events = list(self.events)
        p.loop_depth = self.loop_depth
        return p

    def cond_texts(self, orig=False):
        """Branch conditions of the path; orig=True renders the tests as written
        (local names not substituted)."""
        return [('' if pol else 'not ') + norm(o if orig and isinstance(o, ast.expr) else t) for t, pol, o in self.conds]

    def fact_keys(self, orig=True):
        """Canonical fact keys (cfg.Fact.key) implied by the branch conditions of the path."""
        from .cfg import implied
        out = set()
        for t, pol, o in self.conds:
            node = o if (orig and isinstance(o, ast.expr)) else t
            if not isinstance(node, ast.expr):
                continue
            for f in implied(node, pol):
                out.add(f.key())
            # a test written on explaining variables only (`if failed:` with failed = status != 0) also states what they stand for
            if orig and node is not t and isinstance(t, ast.expr) and _names_only(node):
                for f in implied(t, pol):
                    out.add(f.key())
        return out

    def facts_through_defs(self):
        """facts of the branch conditions, plus - for tests over local names only - the facts of the expressions those names were
        bound to, also when the expression is a call whose result the name merely remembers (`done = req.write_done(a); if done:`)"""
        from .cfg import implied
        out = [f for t, pol, o in self.conds if isinstance(t, ast.expr) for f in implied(t, pol)]
        out += [f for t, pol in self.conds_defs for f in implied(t, pol)]
        return out

    def calls(self, pred=None):
        return [e for e in self.events if e.kind == 'call' and (pred is None or pred(e.node))]

    def returned(self):
        return self.outcome[1] if self.outcome and self.outcome[0] == 'return' else None


def _names_only(test):
    """a test over local names, constants and boolean / comparison operators only: its value is fixed by the current bindings"""
    return all(isinstance(n, (ast.Name, ast.Constant, ast.BoolOp, ast.UnaryOp, ast.Compare, ast.boolop, ast.unaryop, ast.cmpop, ast.expr_context))
               for n in ast.walk(test)) and any(isinstance(n, ast.Name) for n in ast.walk(test))


class _Subst(ast.NodeTransformer):
    def __init__(self, env):
        self.env = env

    def visit_Name(self, node):
        if isinstance(node.ctx, ast.Load) and node.id in self.env:
            return copy.deepcopy(self.env[node.id])
        return node

    def visit_Attribute(self, node):
        if isinstance(node.ctx, ast.Load):
            k = norm(node)
            if k in self.env:
                return copy.deepcopy(self.env[k])
        self.generic_visit(node)
        return node

    def visit_Subscript(self, node):
        if isinstance(node.ctx, ast.Load):
            k = norm(node)
            if k in self.env:
                return copy.deepcopy(self.env[k])
        self.generic_visit(node)
        # constant index into a literal tuple/list
        if isinstance(node.value, (ast.Tuple, ast.List)) and isinstance(node.slice, ast.Constant) and \
                isinstance(node.slice.value, int) and -len(node.value.elts) <= node.slice.value < len(node.value.elts) and \
                not any(isinstance(e, ast.Starred) for e in node.value.elts):
            return node.value.elts[node.slice.value]
        # a non-negative constant index before any starred element of the display
        if isinstance(node.value, (ast.Tuple, ast.List)) and isinstance(node.slice, ast.Constant) and isinstance(node.slice.value, int) and \
                not isinstance(node.slice.value, bool) and 0 <= node.slice.value < len(node.value.elts) and \
                not any(isinstance(e, ast.Starred) for e in node.value.elts[:node.slice.value + 1]):
            return node.value.elts[node.slice.value]
        return node

    def visit_Lambda(self, node):
        return node      # deferred body: leave untouched


def resolve_consts(node, scope):
    """Replace names/attributes that fold to scalar constants in ``scope`` by literals, so that an
    expression can be moved into another function's scope (inlining) without losing their meaning."""
    class T(ast.NodeTransformer):
        def _try(self, n):
            v = fold(n, scope)
            if v is not UNKNOWN and isinstance(v, (int, float, str, bool, bytes)):
                return ast.copy_location(ast.Constant(value=v), n)
            return None

        def visit_Name(self, n):
            return self._try(n) or n

        def visit_Attribute(self, n):
            r = self._try(n)
            if r is not None:
                return r
            self.generic_visit(n)
            return n

        def visit_Lambda(self, n):
            return n
    return ast.fix_missing_locations(T().visit(copy.deepcopy(node)))


def subst(node, env):
    if node is None:
        return None
    return ast.fix_missing_locations(_Subst(env).visit(copy.deepcopy(node)))


def _assigned_names(stmts):
    out = set()
    for st in stmts:
        for n in ast.walk(st):
            if isinstance(n, (ast.Assign, ast.AugAssign, ast.AnnAssign, ast.For)):
                tg = n.targets if isinstance(n, ast.Assign) else [n.target]
                for t in tg:
                    for x in ast.walk(t):
                        if isinstance(x, ast.Name):
                            out.add(x.id)
                        elif isinstance(x, (ast.Attribute, ast.Subscript)) and isinstance(x.ctx, ast.Store):
                            out.add(norm(x))
            elif isinstance(n, ast.Call) and isinstance(n.func, ast.Attribute) and \
                    n.func.attr in ('append', 'extend', 'insert', 'pop', 'remove', 'clear', 'update', 'add'):
                out.add(norm(n.func.value))
    return out


class Explorer:
    def __init__(self, func, max_paths=512, scope=None, fold_tests=True, inline=None, env=None, depth=0, pure=()):
        """inline: callable(call node, func) -> model.Func or None; calls for which it
        returns a Func are summarised in place (statement-level, depth <= 2)."""
        self.func = func
        self.max_paths = max_paths
        self.scope = scope or Scope.of(func)
        self.fold_tests = fold_tests
        self.truncated = False
        self.inline = inline
        self.init_env = env or {}
        self.depth = depth
        self.pure = set(pure)      # extra dotted callees whose results may be substituted (value-like)
        # local single-expression helper functions are inlined at expression level
        self.local_fns = {}
        for st in func.node.body:
            if isinstance(st, ast.FunctionDef):
                from .astutil import effective
                body = effective(st.body)
                if len(body) == 1 and isinstance(body[0], ast.Return) and body[0].value is not None and \
                        not st.args.vararg and not st.args.kwarg and not st.args.kwonlyargs:
                    self.local_fns[st.name] = st

    def _inline_expr(self, node):
        if not self.local_fns or node is None:
            return node
        fns = self.local_fns

        class T(ast.NodeTransformer):
            def visit_Call(self, n):
                self.generic_visit(n)
                if isinstance(n.func, ast.Name) and n.func.id in fns and not n.keywords and \
                        len(n.args) == len(fns[n.func.id].args.args):
                    fd = fns[n.func.id]
                    body = [b for b in fd.body if isinstance(b, ast.Return)][0]
                    return subst(body.value, {a.arg: v for a, v in zip(fd.args.args, n.args)})
                return n

            def visit_Lambda(self, n):
                return n
        return ast.fix_missing_locations(T().visit(node))

    def run(self):
        p = Path()
        p.env.update(self.init_env)
        done = []
        live = self._block(self.func.node.body, [p], done)
        for q in live:
            q.outcome = ('fall', None)
            done.append(q)
        return done

    def _inline_stmt(self, callee, call, p, done):
        params = [a.arg for a in callee.node.args.args]
        if params and params[0] in ('self', 'cls'):
            params = params[1:]
        env = {k: v for k, v in p.env.items() if '.' in k or '[' in k}
        dflt = callee.defaults()
        for i, name in enumerate(params):
            if i < len(call.args):
                env[name] = resolve_consts(call.args[i], self.scope)
            else:
                kw = [k.value for k in call.keywords if k.arg == name]
                if kw:
                    env[name] = resolve_consts(kw[0], self.scope)
                elif name in dflt:
                    env[name] = resolve_consts(dflt[name], Scope.of(callee))
        sub = Explorer(callee, self.max_paths, Scope.of(callee), self.fold_tests, self.inline, env, self.depth + 1, self.pure)
        outs = []
        for q in sub.run():
            if q.outcome[0] == 'raise':
                r = p.fork()
                r.conds += q.conds
                r.events += q.events
                r.outcome = q.outcome
                done.append(r)
                continue
            r = p.fork()
            r.conds += q.conds
            r.events += q.events
            for k, v in q.env.items():
                if '.' in k or '[' in k:
                    r.env[k] = v
            outs.append(r)
        return outs

    # -- statements ---------------------------------------------------------
    def _block(self, stmts, paths, done):
        for st in stmts:
            nxt = []
            for p in paths:
                nxt.extend(self._stmt(st, p, done))
            paths = nxt
            if len(paths) + len(done) > self.max_paths:
                self.truncated = True
                paths = paths[:max(1, self.max_paths - len(done))]
            if not paths:
                break
        return paths

    def _record_calls(self, node, orig, p, stmt):
        # calls written in the original statement, innermost first; calls that only
        # appear through substituted definitions were recorded where they were written
        os_ = [n for n in ast.walk(orig) if isinstance(n, ast.Call)]
        for o in reversed(os_):
            p.events.append(Event('call', subst(o, p.env), o, p.loop_depth > 0, list(p.conds), stmt, dict(p.defs)))

    def _bind(self, target, value, p, stmt):
        if isinstance(target, ast.Name):
            p.defs[target.id] = value
            p.ver[target.id] = p.ver.get(target.id, 0) + 1
            if _impure(value, self.pure):
                # keep the variable opaque: results of non-pure calls are objects, not values
                p.env.pop(target.id, None)
                for k in [k for k in p.env if k.startswith(target.id + '[') or k.startswith(target.id + '.')]:
                    del p.env[k]
            else:
                p.env[target.id] = value
        elif isinstance(target, (ast.Tuple, ast.List)):
            if isinstance(value, (ast.Tuple, ast.List)) and len(value.elts) == len(target.elts) and \
                    not any(isinstance(e, ast.Starred) for e in list(value.elts) + list(target.elts)):
                for t, v in zip(target.elts, value.elts):
                    self._bind(t, v, p, stmt)
            else:
                star = [i for i, t in enumerate(target.elts) if isinstance(t, ast.Starred)]
                for i, t in enumerate(target.elts):
                    if isinstance(t, ast.Starred):
                        # `a, b, *rest = v`: rest holds v[2:] (v[2:-k] with k names after it) - spreading it later gives the same elements
                        after = len(target.elts) - i - 1
                        sl = ast.Slice(lower=ast.Constant(value=i) if i else None, upper=ast.Constant(value=-after) if after else None, step=None)
                        self._bind(t.value, ast.Subscript(value=value, slice=sl, ctx=ast.Load()), p, stmt)
                    elif star and i > star[0]:
                        self._bind(t, ast.Subscript(value=value, slice=ast.Constant(value=i - len(target.elts)), ctx=ast.Load()), p, stmt)
                    else:
                        self._bind(t, ast.Subscript(value=value, slice=ast.Constant(value=i), ctx=ast.Load()), p, stmt)
        elif isinstance(target, (ast.Attribute, ast.Subscript)):
            t2 = subst(target, p.env) if isinstance(target, ast.Subscript) else target
            key = norm(target)
            p.env[key] = value
            # a store to x.attr invalidates remembered x.attr[...] entries
            for k in [k for k in p.env if k.startswith(key + '[') or k.startswith(key + '.')]:
                del p.env[k]
            p.events.append(Event('store', ast.Assign(targets=[t2], value=value, lineno=0, col_offset=0), stmt,
                                  p.loop_depth > 0, list(p.conds), stmt))

    def _mutating_call(self, call, p):
        """x.append(v) / x.extend(v) on a tracked list literal keeps the summary a literal."""
        if isinstance(call.func, ast.Attribute) and call.func.attr in ('append', 'extend') and len(call.args) == 1:
            key = norm(call.func.value)
            cur = p.env.get(key)
            if isinstance(cur, (ast.List,)):
                new = copy.deepcopy(cur)
                arg = subst(call.args[0], p.env)
                if call.func.attr == 'append':
                    new.elts.append(arg)
                elif isinstance(arg, (ast.List, ast.Tuple)):
                    new.elts.extend(arg.elts)
                else:
                    new.elts.append(ast.Starred(value=arg, ctx=ast.Load()))
                p.env[key] = new
                return
        if isinstance(call.func, ast.Attribute) and call.func.attr in (
                'append', 'extend', 'insert', 'pop', 'remove', 'clear', 'update', 'add', 'sort', 'reverse'):
            key = norm(call.func.value)
            if key in p.env:
                p.env[key] = ast.Name(id='<%s@mutated>' % key, ctx=ast.Load())

    def _stmt(self, st, p, done):
        env = p.env
        if isinstance(st, ast.Assign):
            v = self._inline_expr(subst(st.value, env))
            self._record_calls(v, st.value, p, st)
            for t in st.targets:
                self._bind(t, v, p, st)
            return [p]
        if isinstance(st, ast.AnnAssign):
            if st.value is not None:
                v = subst(st.value, env)
                self._record_calls(v, st.value, p, st)
                self._bind(st.target, v, p, st)
            return [p]
        if isinstance(st, ast.AugAssign):
            v = self._inline_expr(subst(st.value, env))
            self._record_calls(v, st.value, p, st)
            cur = subst(ast.fix_missing_locations(_as_load(st.target)), env)
            if isinstance(st.op, ast.Add) and isinstance(cur, ast.Tuple) and isinstance(v, ast.Tuple) and \
                    not any(isinstance(e, ast.Starred) for e in list(cur.elts) + list(v.elts)):
                # tuple += tuple binds a new tuple: the elements of both, in order
                self._bind(st.target, ast.Tuple(elts=list(copy.deepcopy(cur.elts)) + list(v.elts), ctx=ast.Load()), p, st)
                return [p]
            if isinstance(st.op, ast.Add) and isinstance(cur, ast.List):
                # list += iterable extends in place and accepts any iterable (unlike list + x)
                new = copy.deepcopy(cur)
                if isinstance(v, (ast.List, ast.Tuple)):
                    new.elts.extend(v.elts)
                else:
                    new.elts.append(ast.Starred(value=v, ctx=ast.Load()))
                self._bind(st.target, new, p, st)
                return [p]
            self._bind(st.target, ast.BinOp(left=cur, op=st.op, right=v), p, st)
            return [p]
        if isinstance(st, ast.Expr):
            v = self._inline_expr(subst(st.value, env))
            self._record_calls(v, st.value, p, st)
            if isinstance(st.value, ast.Call):
                self._mutating_call(st.value, p)
                callee = self.inline(st.value, self.func) if (self.inline and self.depth < 2) else None
                if callee is not None:
                    return self._inline_stmt(callee, v, p, done)
            return [p]
        if isinstance(st, ast.Return):
            v = subst(st.value, env) if st.value is not None else None
            if v is not None:
                self._record_calls(v, st.value, p, st)
            p.outcome = ('return', v)
            done.append(p)
            return []
        if isinstance(st, ast.Raise):
            v = subst(st.exc, env) if st.exc is not None else None
            p.outcome = ('raise', v)
            p.events.append(Event('raise', v if v is not None else ast.Constant(value=None), st, p.loop_depth > 0, list(p.conds), st))
            done.append(p)
            return []
        if isinstance(st, ast.If):
            t = subst(st.test, env)
            self._record_calls(t, st.test, p, st)
            val = fold(t, self.scope) if self.fold_tests else UNKNOWN
            if val is UNKNOWN:
                val = _display_vs_none(t)
            out = []
            # a test over local names only that this path has already decided (same bindings) goes the same way again
            dkey = None
            if val is UNKNOWN and _names_only(st.test):
                from .cfg import implied
                opaque = {n.id: p.defs[n.id] for n in ast.walk(st.test) if isinstance(n, ast.Name) and n.id not in env and isinstance(p.defs.get(n.id), ast.expr)}
                tdefs = subst(st.test, opaque) if opaque else None
                fs = implied(t, True)
                if len(fs) == 1:
                    dkey = (fs[0].text, tuple(sorted((n.id, p.ver.get(n.id, 0)) for n in ast.walk(st.test) if isinstance(n, ast.Name))))
                    if dkey in p.decided:
                        val = p.decided[dkey] == fs[0].pol
                        p.conds.append((t, bool(val), st.test))
                        dkey = None
            if val is UNKNOWN or val:
                a = p.fork()
                if val is UNKNOWN:
                    a.conds.append((t, True, st.test))
                    if dkey:
                        a.decided[dkey] = fs[0].pol
                    if _names_only(st.test) and tdefs is not None:
                        a.conds_defs.append((tdefs, True))
                out.extend(self._block(st.body, [a], done))
            if val is UNKNOWN or not val:
                b = p.fork()
                if val is UNKNOWN:
                    b.conds.append((t, False, st.test))
                    if dkey:
                        b.decided[dkey] = not fs[0].pol
                    if _names_only(st.test) and tdefs is not None:
                        b.conds_defs.append((tdefs, False))
                out.extend(self._block(st.orelse, [b], done))
            return out
        if isinstance(st, (ast.For, ast.While)):
            hav = _assigned_names([st])
            it = subst(st.iter if isinstance(st, ast.For) else st.test, env)
            self._record_calls(it, st.iter if isinstance(st, ast.For) else st.test, p, st)
            for k in hav:
                env[k] = ast.Name(id='<%s@loop>' % k, ctx=ast.Load())
                for kk in [kk for kk in env if kk.startswith(k + '[') or kk.startswith(k + '.')]:
                    del env[kk]
            p.events.append(Event('loop', it, st, p.loop_depth > 0, list(p.conds), st))
            body = p.fork()
            body.loop_depth += 1
            sub_done = []
            ends = self._block(st.body, [body], sub_done)
            # paths that return/raise inside the loop are real outcomes
            out = []
            for q in sub_done:
                if q.outcome[0] in ('return', 'raise'):
                    done.append(q)
            # continue after the loop with the havocked env plus the events of one body pass
            merged = p
            if ends:
                merged.events = ends[0].events
            for k in hav:
                merged.env[k] = ast.Name(id='<%s@loop>' % k, ctx=ast.Load())
            merged.events.append(Event('endloop', it, st, p.loop_depth > 0, list(p.conds), st))
            out.append(merged)
            return out
        if isinstance(st, ast.Try):
            out = []
            main = p.fork()
            sub_done = []
            ends = self._block(st.body, [main], sub_done)
            for q in sub_done:
                if q.outcome[0] == 'raise' and st.handlers:
                    continue        # caught (approximately) - represented by handler paths
                if st.finalbody:
                    q2 = self._block(st.finalbody, [q], done)
                    for r in q2:
                        r.outcome = q.outcome
                        done.append(r)
                else:
                    done.append(q)
            ends = self._block(st.orelse, ends, done) if st.orelse else ends
            hav = _assigned_names(st.body)
            for h in st.handlers:
                hp = p.fork()
                for k in hav:
                    hp.env[k] = ast.Name(id='<%s@try>' % k, ctx=ast.Load())
                hp.conds.append((ast.Name(id='<exception %s>' % (norm(h.type) if h.type else ''), ctx=ast.Load()), True, h))
                ends.extend(self._block(h.body, [hp], done))
            if st.finalbody:
                ends = self._block(st.finalbody, ends, done)
            out.extend(ends)
            return out
        if isinstance(st, ast.With):
            for i in st.items:
                v = subst(i.context_expr, env)
                self._record_calls(v, i.context_expr, p, st)
                if i.optional_vars is not None:
                    self._bind(i.optional_vars, v, p, st)
            return self._block(st.body, [p], done)
        if isinstance(st, (ast.Break, ast.Continue)):
            p.outcome = ('break' if isinstance(st, ast.Break) else 'continue', None)
            done.append(p)
            return []
        if isinstance(st, ast.Assert):
            t = subst(st.test, env)
            if _self_evident(t, self.scope if self.fold_tests else None):
                return [p]                  # an assertion the bindings of this path already decide says nothing
            p.conds.append((t, True, st.test))
            return [p]
        if isinstance(st, ast.Delete):
            for t in st.targets:
                env.pop(norm(t), None)
            return [p]
        # Pass, Import, FunctionDef, Global ...
        if isinstance(st, ast.FunctionDef):
            env.pop(st.name, None)
        return [p]


def _display_vs_none(t):
    """`X is None` / `X is not None` / `not X is None` where X is a tuple / list / dict / set display: a display is never None"""
    neg = False
    while isinstance(t, ast.UnaryOp) and isinstance(t.op, ast.Not):
        t, neg = t.operand, not neg
    if isinstance(t, ast.Compare) and len(t.ops) == 1 and isinstance(t.ops[0], (ast.Is, ast.IsNot)):
        a, b = t.left, t.comparators[0]
        if isinstance(a, ast.Constant) and a.value is None:
            a, b = b, a
        if isinstance(b, ast.Constant) and b.value is None and isinstance(a, (ast.Tuple, ast.List, ast.Dict, ast.Set)):
            v = isinstance(t.ops[0], ast.IsNot)
            return (not v) if neg else v
        if isinstance(b, ast.Constant) and b.value is None and isinstance(a, ast.Constant):
            v = (a.value is None) == isinstance(t.ops[0], ast.Is)
            return (not v) if neg else v
    return UNKNOWN


def _self_evident(t, scope):
    """a test that holds whatever the inputs are, after the path's bindings were substituted: `x is x`, `x == x` on call-free
    operands, a conjunction of such, or a test the constant folder decides as true"""
    if isinstance(t, ast.BoolOp) and isinstance(t.op, ast.And):
        return all(_self_evident(v, scope) for v in t.values)
    if isinstance(t, ast.Compare) and len(t.ops) == 1 and isinstance(t.ops[0], (ast.Is, ast.Eq)) and norm(t.left) == norm(t.comparators[0]) and \
            not any(isinstance(x, ast.Call) for x in ast.walk(t)):
        return True
    if scope is not None:
        try:
            v = fold(t, scope)
            return v is not UNKNOWN and bool(v) is True
        except Exception:
            return False
    return False


PURE_CALLS = {
    'int', 'float', 'bool', 'len', 'abs', 'min', 'max', 'round', 'bytes', 'bytearray', 'tuple', 'list', 'str', 'sum',
    'struct.pack', 'struct.unpack', 'struct.calcsize', 'math.sqrt', 'math.degrees', 'math.radians', 'math.sin', 'math.cos',
    'math.atan2', 'math.pi', 'math.floor', 'math.ceil', 'math.copysign', 'math.fabs', 'math.pow', 'divmod', 'ord', 'chr',
    'np.array', 'np.dot', 'np.matmul', 'np.linalg.norm', 'numpy.array', 'range', 'enumerate', 'zip', 'sorted', 'reversed',
    'compress_quaternion', 'binascii.unhexlify', 'binascii.hexlify', 'isinstance', 'type',
}


def _impure(value, extra=()):
    for n in ast.walk(value):
        if isinstance(n, ast.Call):
            d = None
            f = n.func
            parts = []
            while isinstance(f, ast.Attribute):
                parts.append(f.attr)
                f = f.value
            if isinstance(f, ast.Name):
                parts.append(f.id)
                d = '.'.join(reversed(parts))
            if d not in PURE_CALLS and d not in extra and not (isinstance(n.func, ast.Attribute) and n.func.attr in ('format', 'encode', 'decode', 'split', 'strip', 'lower', 'upper', 'get')):
                return True
    return False


def _as_load(t):
    t = copy.deepcopy(t)
    for n in ast.walk(t):
        if hasattr(n, 'ctx'):
            n.ctx = ast.Load()
    return t


def paths_of(func, **kw):
    ex = Explorer(func, **kw)
    ps = ex.run()
    return ps, ex


def paths_of_block(func, stmts, **kw):
    """Path summaries of a statement list (e.g. one iteration of a loop body) of ``func``."""
    ex = Explorer(func, **kw)
    p = Path()
    p.env.update(ex.init_env)
    done = []
    live = ex._block(list(stmts), [p], done)
    for q in live:
        q.outcome = ('fall', None)
        done.append(q)
    return done, ex
