"""Small flow rules shared by several properties.

unchanged_param     the value of a parameter that reaches a node is the caller's (never re-bound on the way)
one_shot_rules      a one-shot iterator (map / zip / filter / generator expression / iter ...) is consumed at most once
simple_noise        a logging statement whose arguments cannot raise and cannot change anything
"""
import ast

from .astutil import dotted, is_noise
from .cfg import cfg_of, norm, walk_own

ONE_SHOT_MAKERS = {'map', 'zip', 'filter', 'iter', 'reversed', 'enumerate'}
# callables that run through their (first) argument completely or partly
CONSUMERS = {'list', 'tuple', 'set', 'frozenset', 'sorted', 'sum', 'min', 'max', 'any', 'all', 'dict', 'next', 'len', 'bytes', 'bytearray', 'enumerate', 'zip', 'map',
             'filter', 'reversed', 'iter'}


def unchanged_param(g, node, name):
    """only the value the caller passed reaches ``node`` under ``name``"""
    return all(d is g.entry for d in g.reaching_defs(node, name))


def is_one_shot(expr, producers=()):
    if isinstance(expr, ast.GeneratorExp):
        return True
    if isinstance(expr, ast.Call):
        if isinstance(expr.func, ast.Name) and expr.func.id in ONE_SHOT_MAKERS:
            return True
        d = dotted(expr.func) or ''
        if d.split('.')[-1] in producers:
            return True
    return False


def _producers(mod):
    """names of functions/methods of the module whose every value return is a one-shot iterator"""
    out = set()
    for f in mod.all_funcs():
        rets = [s.value for s in walk_own(f.node) if isinstance(s, ast.Return) and s.value is not None]
        if rets and all(is_one_shot(r) for r in rets):
            out.add(f.name)
    return out


def _consumptions(g, name):
    """[(node, how)] places of the function that iterate over the local ``name``"""
    out = []
    for n in g.nodes:
        if n.ast is None:
            continue
        if n.kind == 'for':
            roots = [n.ast.iter]
            if isinstance(n.ast.iter, ast.Name) and n.ast.iter.id == name:
                out.append((n, 'for'))
                continue
        elif n.kind in ('if', 'while'):
            roots = [n.ast.test]
        elif isinstance(n.ast, (ast.Try, ast.With, ast.FunctionDef, ast.ClassDef)):
            roots = [i.context_expr for i in n.ast.items] if isinstance(n.ast, ast.With) else []
        else:
            roots = [n.ast]
        for r in roots:
            for x in ast.walk(r):
                if isinstance(x, ast.Call) and isinstance(x.func, ast.Name) and x.func.id in CONSUMERS and any(isinstance(a, ast.Name) and a.id == name for a in x.args):
                    out.append((n, x.func.id + '()'))
                elif isinstance(x, ast.Call) and isinstance(x.func, ast.Attribute) and x.func.attr in ('join', 'extend', 'update') and \
                        any(isinstance(a, ast.Name) and a.id == name for a in x.args):
                    out.append((n, '.%s()' % x.func.attr))
                elif isinstance(x, ast.Starred) and isinstance(x.value, ast.Name) and x.value.id == name:
                    out.append((n, '*unpack'))
                elif isinstance(x, (ast.ListComp, ast.SetComp, ast.DictComp, ast.GeneratorExp)) and any(isinstance(c.iter, ast.Name) and c.iter.id == name for c in x.generators):
                    out.append((n, 'comprehension'))
                elif isinstance(x, ast.Compare) and any(isinstance(o, (ast.In, ast.NotIn)) for o in x.ops) and any(isinstance(c, ast.Name) and c.id == name for c in x.comparators):
                    out.append((n, 'in'))
            if isinstance(n.ast, ast.Assign) and isinstance(n.ast.targets[0], (ast.Tuple, ast.List)) and isinstance(n.ast.value, ast.Name) and n.ast.value.id == name:
                out.append((n, 'unpacking'))
    return out


def one_shot_rules(ctx, rule, paths, only=None):
    """Every local (or parameter) of the given modules that holds a one-shot iterator is run through at most once on any path.
    A second pass (a debug `list(x)`, a `sum(1 for _ in x)`, a `next(x)` to peek) silently sees nothing - or steals what the real
    consumer needed."""
    m = ctx.model
    count = 0
    for path in paths:
        mod = m.mod(path)
        prods = _producers(mod)
        funcs = list(mod.all_funcs())
        # parameters that receive a one-shot iterator from a call site in the module
        oneshot_params = {}
        for f in funcs:
            g = None
            for c in [x for x in walk_own(f.node) if isinstance(x, ast.Call)]:
                callee = (dotted(c.func) or '').split('.')[-1]
                tg = [h for h in funcs if h.name == callee]
                if len(tg) != 1:
                    continue
                ps = tg[0].params[1:] if tg[0].params[:1] in (['self'], ['cls']) else tg[0].params
                for i, a in enumerate(c.args[:len(ps)]):
                    v = a
                    if isinstance(a, ast.Name):
                        g = g or cfg_of(f)
                        nd = g.node_of(c)
                        v = g.resolve_local(nd, a) if nd is not None else a
                    if is_one_shot(v, prods):
                        oneshot_params.setdefault(tg[0].qualname, set()).add(ps[i])
        for f in funcs:
            if only is not None and (path, f.qualname) not in only:
                continue
            names = {}
            for s in walk_own(f.node):
                if isinstance(s, ast.Assign) and len(s.targets) == 1 and isinstance(s.targets[0], ast.Name) and is_one_shot(s.value, prods):
                    names[s.targets[0].id] = norm(s.value)[:50]
            for p in oneshot_params.get(f.qualname, ()):
                names.setdefault(p, 'argument of a caller')
            if not names:
                continue
            g = cfg_of(f)
            for name, src in sorted(names.items()):
                cons = _consumptions(g, name)
                bad = None
                for i, (a, how_a) in enumerate(cons):
                    defs = [n for n in g.nodes if n.kind == 'stmt' and isinstance(n.ast, ast.Assign) and any(norm(t) == name for t in n.ast.targets)]
                    # a second consumer reachable from the first without the name being bound again (this includes the same
                    # consumer in a loop the binding sits outside of)
                    later = [b for b, _ in cons]
                    if a.kind == 'for' and how_a == 'for':
                        # the loop itself is one pass: look at what runs after the loop is left
                        inside = [e for e in a.succ if not (e.label and e.label[0] == 'iter' and e.label[2] is False)]
                        w = g.path_avoiding(a, later, avoid=defs, avoid_edges=inside)
                    else:
                        w = g.path_avoiding(a, later, avoid=defs)
                    if w is not None:
                        bad = '%s at line %d, then %s at line %d' % (how_a, a.line, [h for b, h in cons if b is w[-1]][0], w[-1].line)
                        break
                count += 1
                ctx.inst(rule, f, 'one-pass:' + name, bad is None,
                         '%s holds a one-shot iterator (%s): it can be run through once; found %s' % (name, src, bad or 'one consumer'))
    return count


def simple_noise(stmt):
    """a logging / print statement whose arguments are names, constants, attributes of names or str()/repr()/len()/type() of those:
    evaluating them cannot raise on any object and changes nothing"""
    if not is_noise(stmt) or not isinstance(stmt, ast.Expr) or not isinstance(stmt.value, ast.Call):
        return isinstance(stmt, ast.Pass)

    def simple(e):
        if isinstance(e, (ast.Constant, ast.Name)):
            return True
        if isinstance(e, ast.Attribute) and e.attr == '__name__' and isinstance(e.value, ast.Call):
            return simple(e.value)
        if isinstance(e, ast.Attribute):
            return isinstance(e.value, ast.Name) and e.value.id in ('self', 'cls')
        if isinstance(e, ast.Call) and isinstance(e.func, ast.Name) and e.func.id in ('str', 'repr', 'len', 'type', 'id') and len(e.args) == 1 and not e.keywords:
            return isinstance(e.args[0], (ast.Name, ast.Constant)) or (e.func.id != 'len' and simple(e.args[0]))
        if isinstance(e, ast.BinOp) and isinstance(e.op, ast.Mod) and isinstance(e.left, ast.Constant) and isinstance(e.left.value, str):
            return all(simple(x) for x in (e.right.elts if isinstance(e.right, ast.Tuple) else [e.right]))        # '..%s..' % names
        if isinstance(e, ast.JoinedStr):
            return all(isinstance(v, ast.Constant) or (isinstance(v, ast.FormattedValue) and simple(v.value) and v.format_spec is None) for v in e.values)
        if isinstance(e, ast.Call) and isinstance(e.func, ast.Attribute) and e.func.attr == 'format' and isinstance(e.func.value, ast.Constant):
            return all(simple(x) for x in e.args) and not e.keywords
        return False
    c = stmt.value
    return all(simple(a) for a in c.args) and all(simple(k.value) for k in c.keywords)


def cannot_raise(stmt):
    """statements of a callback that cannot fail whatever state the object is in: plain stores of names / constants / formatted
    names to own attributes, logging of such values, calls of own argument-less methods (trusted), tests of own attributes"""
    def simple_value(e):
        probe = ast.Expr(value=ast.Call(func=ast.Attribute(value=ast.Name(id='logger', ctx=ast.Load()), attr='debug', ctx=ast.Load()), args=[e], keywords=[]))
        return simple_noise(probe)
    if isinstance(stmt, (ast.Pass, ast.Import, ast.ImportFrom)) or simple_noise(stmt):
        return True
    if isinstance(stmt, ast.Assign) and all(isinstance(t, ast.Name) for t in stmt.targets) and isinstance(stmt.value, (ast.Constant, ast.Name)):
        return True                       # a local bound to a name or a literal
    if isinstance(stmt, ast.Assign) and all(isinstance(t, ast.Attribute) and isinstance(t.value, ast.Name) and t.value.id == 'self' for t in stmt.targets):
        return simple_value(stmt.value)
    if isinstance(stmt, ast.Expr) and isinstance(stmt.value, ast.Call) and isinstance(stmt.value.func, ast.Attribute) and isinstance(stmt.value.func.value, ast.Name) and \
            stmt.value.func.value.id == 'self' and not stmt.value.args and not stmt.value.keywords:
        return True
    return False


def _changes_state(func):
    """the function stores an attribute / item or deletes one (looked at one level: its own body)"""
    for n in ast.walk(func.node):
        if isinstance(n, (ast.Attribute, ast.Subscript)) and isinstance(n.ctx, (ast.Store, ast.Del)):
            return norm(n)
        if isinstance(n, ast.Call) and isinstance(n.func, ast.Attribute) and n.func.attr in ('pop', 'popleft', 'append', 'extend', 'remove', 'clear', 'update', 'put', 'get_nowait',
                                                                                             'set', 'acquire', 'release', 'send_packet', 'start', 'cancel', 'close'):
            if n.func.attr in ('get', 'set') and not isinstance(n.func.value, ast.Attribute):
                continue
            return norm(n.func)
    return None


def logging_purity_rules(ctx, rule, paths, only=None):
    """Logging / debug statements are observers: a call among their arguments that resolves to a function of the same module must not
    change state (store attributes, pop / put / clear containers, take locks, send).  Checked for every logging statement of the given
    modules whose arguments contain such a resolvable call."""
    m = ctx.model
    n_inst = 0
    for path in paths:
        mod = m.mod(path)
        by_name = {}
        for f in mod.all_funcs():
            by_name.setdefault(f.name, []).append(f)
        for f in mod.all_funcs():
            if only is not None and (path, f.qualname) not in only:
                continue
            for st in walk_own(f.node):
                if not (isinstance(st, ast.Expr) and is_noise(st) and isinstance(st.value, ast.Call)):
                    continue
                for c in [x for a in list(st.value.args) + [k.value for k in st.value.keywords] for x in ast.walk(a) if isinstance(x, ast.Call)]:
                    nm = c.func.attr if isinstance(c.func, ast.Attribute) else c.func.id if isinstance(c.func, ast.Name) else None
                    tg = by_name.get(nm, [])
                    if len(tg) != 1:
                        continue
                    why = _changes_state(tg[0])
                    n_inst += 1
                    ctx.inst(rule, f, 'log-argument-observes:%s' % nm, why is None,
                             'a logging statement calls %s(), which changes state (%s): observability code must not act' % (tg[0].qualname, why), line=st.lineno)
    return n_inst


def only_none_guards(extra, *names):
    """the additional branch facts merely say that one of ``names`` is not None / is true: a guard against a value that never occurs"""
    from .cfg import fact_key
    allowed = set()
    for nm in names:
        allowed |= {fact_key('%s is None' % nm, False), fact_key(nm, True)}
    return set(extra) <= allowed


MUTATORS = ('append', 'extend', 'insert', 'pop', 'remove', 'clear', 'update', 'add', 'discard', 'setdefault', 'popitem', 'sort', 'reverse', 'appendleft', 'popleft')
SYNC_USES = ('put', 'put_nowait', 'get', 'get_nowait', 'set', 'clear', 'wait', 'acquire', 'release', 'notify', 'notify_all', 'join', 'task_done')   # of a queue / event / lock


def _is_sync_object(e):
    return isinstance(e, ast.Call) and (dotted(e.func) or '').split('.')[-1] in ('Queue', 'LifoQueue', 'PriorityQueue', 'SimpleQueue', 'Event', 'Lock', 'RLock', 'Condition', 'Semaphore')


def _is_mutable_display(e):
    if isinstance(e, (ast.List, ast.Dict, ast.Set, ast.ListComp, ast.DictComp, ast.SetComp)):
        return True
    if isinstance(e, ast.Call) and isinstance(e.func, ast.Name) and e.func.id in ('list', 'dict', 'set', 'bytearray', 'deque', 'defaultdict', 'OrderedDict') and not e.args:
        return True
    # one queue / event / lock object made when the def or class statement runs
    return isinstance(e, ast.Call) and (dotted(e.func) or '').split('.')[-1] in ('Queue', 'LifoQueue', 'PriorityQueue', 'SimpleQueue', 'Event', 'Lock', 'RLock', 'Condition', 'Semaphore', 'deque')


def shared_state_rules(ctx, rule, paths, only=None):
    """Two ways in which state meant for one call / one object silently becomes shared, for every function and class of the modules:
    a mutable default argument that the body changes (the same object is used by every later call), and a mutable class-level
    attribute that methods change through self without any method binding a fresh one on the instance (all instances share it)."""
    m = ctx.model
    n = 0
    for path in paths:
        mod = m.mod(path)
        for f in mod.all_funcs():
            if only is not None and (path, f.qualname) not in only:
                continue
            a = f.node.args
            pos = a.posonlyargs + a.args
            pairs = list(zip(pos[len(pos) - len(a.defaults):], a.defaults)) + [(p, d) for p, d in zip(a.kwonlyargs, a.kw_defaults) if d is not None]
            for p_, d_ in pairs:
                if not _is_mutable_display(d_):
                    continue
                MUT = SYNC_USES if _is_sync_object(d_) else MUTATORS
                changed = [norm(x)[:50] for x in ast.walk(f.node) if
                           (isinstance(x, ast.Call) and isinstance(x.func, ast.Attribute) and x.func.attr in MUT and isinstance(x.func.value, ast.Name) and x.func.value.id == p_.arg) or
                           (isinstance(x, ast.Subscript) and isinstance(x.ctx, (ast.Store, ast.Del)) and isinstance(x.value, ast.Name) and x.value.id == p_.arg) or
                           (isinstance(x, ast.AugAssign) and isinstance(x.target, ast.Name) and x.target.id == p_.arg)]
                stored = []
                for x in ast.walk(f.node):
                    if isinstance(x, ast.Assign) and isinstance(x.value, ast.Name) and x.value.id == p_.arg:
                        for t in x.targets:
                            # kept on the object AND changed in place through that attribute by some method of the class
                            if isinstance(t, ast.Attribute) and isinstance(t.value, ast.Name) and t.value.id == 'self' and f.cls is not None and any(
                                    (isinstance(y, ast.Call) and isinstance(y.func, ast.Attribute) and y.func.attr in MUT and norm(y.func.value) == 'self.' + t.attr) or
                                    (isinstance(y, ast.Subscript) and isinstance(y.ctx, (ast.Store, ast.Del)) and norm(y.value) == 'self.' + t.attr) or
                                    (isinstance(y, ast.AugAssign) and norm(y.target) == 'self.' + t.attr)
                                    for y in ast.walk(f.cls.node)):
                                stored.append(norm(x)[:50])
                n += 1
                ctx.inst(rule, f, 'default-not-shared:' + p_.arg, not changed and not stored,
                         'the default of %s is one object for all calls; the function changes it (%s) or keeps it on the object (%s)' % (p_.arg, changed, stored))
        for c in mod.all_classes():
            if only is not None and not any(p_ == path and q_.startswith(c.qualname + '.') for p_, q_ in only):
                continue
            cl = {}
            for st in c.node.body:
                if isinstance(st, ast.Assign) and len(st.targets) == 1 and isinstance(st.targets[0], ast.Name) and _is_mutable_display(st.value):
                    cl[st.targets[0].id] = st
                elif isinstance(st, ast.AnnAssign) and isinstance(st.target, ast.Name) and st.value is not None and _is_mutable_display(st.value):
                    cl[st.target.id] = st                        # `cb: list = []` is a class attribute all the same
            for name, st in cl.items():
                if name.isupper():
                    continue                      # tables by convention
                rebinds = [x for x in ast.walk(c.node) if isinstance(x, ast.Attribute) and isinstance(x.ctx, ast.Store) and x.attr == name and
                           isinstance(x.value, ast.Name) and x.value.id == 'self']
                MUT = SYNC_USES if _is_sync_object(st.value) else MUTATORS
                changes = [norm(x)[:50] for x in ast.walk(c.node) if
                           (isinstance(x, ast.Call) and isinstance(x.func, ast.Attribute) and x.func.attr in MUT and isinstance(x.func.value, ast.Attribute) and
                            x.func.value.attr == name and isinstance(x.func.value.value, ast.Name) and x.func.value.value.id == 'self') or
                           (isinstance(x, ast.Subscript) and isinstance(x.ctx, (ast.Store, ast.Del)) and isinstance(x.value, ast.Attribute) and x.value.attr == name and
                            isinstance(x.value.value, ast.Name) and x.value.value.id == 'self') or
                           (isinstance(x, ast.AugAssign) and isinstance(x.target, ast.Attribute) and x.target.attr == name and isinstance(x.target.value, ast.Name) and
                            x.target.value.id == 'self')]
                n += 1
                ctx.inst(rule, (path, c.qualname), 'instance-state-not-on-class:' + name, not changes or bool(rebinds),
                         '%s.%s is a mutable class attribute that methods change through self (%s) and that no method re-binds on the instance: all instances share it'
                         % (c.qualname, name, changes), line=st.lineno)
    return n


def truthiness_rules(ctx, rule, paths, only=None):
    """An object that is tested for presence by truth (`if self.toc:`, `if not pk:`, `x or default`) must not define __len__ / __bool__:
    an empty-but-present object would count as absent.  Resolved for attributes and locals that are bound to `Class(...)` of a class
    defined in the given modules."""
    m = ctx.model
    classes = {}
    for path in paths:
        for c in m.mod(path).all_classes():
            classes.setdefault(c.name, []).append(c)
    sized = {nm: [c for c in cs if c.has('__len__') or c.has('__bool__')] for nm, cs in classes.items()}
    n = 0
    for path in paths:
        mod = m.mod(path)
        # attribute / local name -> class names it is bound to anywhere in the module
        bound = {}
        for f in mod.all_funcs():
            for st in walk_own(f.node):
                if isinstance(st, ast.Assign) and isinstance(st.value, ast.Call):
                    cn = (dotted(st.value.func) or '').split('.')[-1]
                    if cn in classes:
                        for t in st.targets:
                            bound.setdefault(norm(t), set()).add(cn)
        for f in mod.all_funcs():
            if only is not None and (path, f.qualname) not in only:
                continue
            tests = []
            for x in ast.walk(f.node):
                if isinstance(x, (ast.If, ast.While, ast.IfExp)):
                    tests.append(x.test)
                elif isinstance(x, ast.Assert):
                    tests.append(x.test)
            seen = set()
            for t in tests:
                atoms = []
                todo = [t]
                while todo:
                    e = todo.pop()
                    if isinstance(e, ast.BoolOp):
                        todo.extend(e.values)
                    elif isinstance(e, ast.UnaryOp) and isinstance(e.op, ast.Not):
                        todo.append(e.operand)
                    else:
                        atoms.append(e)
                for a in atoms:
                    key = norm(a)
                    if not isinstance(a, (ast.Name, ast.Attribute)) or key in seen or key not in bound:
                        continue
                    seen.add(key)
                    bad = sorted(cn for cn in bound[key] if sized.get(cn))
                    n += 1
                    ctx.inst(rule, f, 'presence-by-truth:' + key, not bad,
                             '%s is tested for presence by truth but %s defines __len__/__bool__: an empty object counts as missing' % (key, bad))
    return n


def generic_rules(ctx, rule='RG'):
    """Hygiene conditions every property needs of the functions that implement it (= the functions that carry instances of the
    property's own rules): one-shot iterators run through once, logging arguments do not act, no state shared through a mutable
    default or a mutable class attribute, no __len__/__bool__ on an object whose presence is tested by truth."""
    only = {(p, q) for p, q in ctx.functions if q}
    paths = sorted({p for p, _ in only if p.endswith('.py')})
    paths = [p for p in paths if ctx.model.exists(p)]
    # ... and the methods of the same class they call directly (`self._find_block(..)`): a helper of a function that implements
    # the property implements it too
    for p_ in paths:
        mod_ = ctx.model.mod(p_)
        byq = {f_.qualname: f_ for f_ in mod_.all_funcs()}
        for (pp, q) in list(only):
            f_ = byq.get(q) if pp == p_ else None
            if f_ is None or '.' not in q:
                continue
            cls_q = q.rsplit('.', 1)[0]
            for c_ in walk_own(f_.node):
                if isinstance(c_, ast.Call) and isinstance(c_.func, ast.Attribute) and isinstance(c_.func.value, ast.Name) and c_.func.value.id in ('self', 'cls') and \
                        (cls_q + '.' + c_.func.attr) in byq:
                    only.add((p_, cls_q + '.' + c_.func.attr))
    n = 0
    n += one_shot_rules(ctx, rule, paths, only)
    n += logging_purity_rules(ctx, rule, paths, only)
    n += shared_state_rules(ctx, rule, paths, only)
    n += truthiness_rules(ctx, rule, paths, only)
    n += fresh_packet_rules(ctx, rule, paths, only)
    n += consumed_argument_rules(ctx, rule, paths, only)
    n += blocking_under_lock_rules(ctx, rule, paths, only)
    n += language_pitfall_rules(ctx, rule, paths, only)
    n += undefined_name_rules(ctx, rule, paths, only)
    n += argument_order_rules(ctx, rule, paths, only)
    return n


def fresh_packet_rules(ctx, rule, paths, only=None):
    """A packet object handed to send_packet() is not changed or refilled afterwards by the same function: the drivers queue the
    *object* and serialise it later, so a later change shows in the transmission that was already queued.  For every
    `X.send_packet(v)` with a local v: no store into v (v.data = .., v.data.append, v.set_header ..) is reachable from the transmission
    without v being bound to a new packet first.  (Sending the same unchanged packet again - a retry - is fine.)"""
    m = ctx.model
    n = 0
    for path in paths:
        for f in m.mod(path).all_funcs():
            if only is not None and (path, f.qualname) not in only:
                continue
            sends = [c for c in walk_own(f.node) if isinstance(c, ast.Call) and isinstance(c.func, ast.Attribute) and c.func.attr == 'send_packet' and c.args and
                     isinstance(c.args[0], ast.Name) and c.args[0].id not in f.params]
            if not sends:
                continue
            g = cfg_of(f)
            for c in sends:
                v = c.args[0].id
                sn = g.node_of(c)
                if sn is None:
                    continue
                defs = [x for x in g.nodes if x.kind == 'stmt' and isinstance(x.ast, ast.Assign) and any(norm(t) == v for t in x.ast.targets)]
                if not defs:
                    continue
                uses = []
                for x in g.nodes:
                    if x.ast is None or x.kind not in ('stmt',):
                        continue
                    for y in walk_own(x.ast):
                        if isinstance(y, ast.Attribute) and isinstance(y.ctx, ast.Store) and isinstance(y.value, ast.Name) and y.value.id == v:
                            uses.append((x, 'field stored'))
                        elif isinstance(y, ast.Call) and isinstance(y.func, ast.Attribute) and y.func.attr in MUTATORS + ('set_header',) and \
                                (norm(y.func.value) == v or norm(y.func.value).startswith(v + '.')):
                            uses.append((x, 'changed in place'))
                bad = None
                for x, how in uses:
                    if x in defs:
                        continue
                    w = g.path_avoiding(sn, [x], avoid=defs)
                    if w is not None:
                        bad = '%s at line %d' % (how, x.line)
                        break
                n += 1
                ctx.inst(rule, f, 'packet-not-reused:%s@%d' % (v, int(c.lineno)), bad is None,
                         'the packet %s is queued by send_packet (line %d) and must not be used again before a new one is created; %s' % (v, int(c.lineno), bad or 'ok'))
    return n


def consumed_argument_rules(ctx, rule, paths, only=None):
    """An object the caller handed in is not used up: a parameter stored on self as it is (no copy) must not be emptied through that
    attribute (pop / popitem / remove / clear / del item) by the methods of the class - the caller's dictionary or list would shrink
    while the upload runs, and be empty for the next use."""
    m = ctx.model
    n = 0
    REMOVERS = ('pop', 'popitem', 'remove', 'clear', 'popleft')
    for path in paths:
        for c in m.mod(path).all_classes():
            if only is not None and not any(p_ == path and q_.startswith(c.qualname + '.') for p_, q_ in only):
                continue
            for f in c.methods.values():
                for st in walk_own(f.node):
                    if not (isinstance(st, ast.Assign) and isinstance(st.value, ast.Name) and st.value.id in f.params and st.value.id not in ('self', 'cls')):
                        continue
                    for t in st.targets:
                        if not (isinstance(t, ast.Attribute) and isinstance(t.value, ast.Name) and t.value.id == 'self'):
                            continue
                        g = cfg_of(f)
                        nd = g.node_of(st.value)
                        if nd is not None and not unchanged_param(g, nd, st.value.id):
                            continue                 # re-bound before it is stored (e.g. to a copy)
                        eaten = [norm(y)[:50] for y in ast.walk(c.node) if
                                 (isinstance(y, ast.Call) and isinstance(y.func, ast.Attribute) and y.func.attr in REMOVERS and norm(y.func.value) == 'self.' + t.attr) or
                                 (isinstance(y, ast.Delete) and any(isinstance(d, ast.Subscript) and norm(d.value) == 'self.' + t.attr for d in y.targets))]
                        if not eaten and not any(isinstance(y, ast.Call) for y in ()):
                            continue
                        n += 1
                        ctx.inst(rule, f, 'argument-not-consumed:' + t.attr, not eaten,
                                 '%s keeps its argument %s as self.%s without copying it, and the class removes entries from it (%s): the caller\'s object is emptied'
                                 % (f.qualname, st.value.id, t.attr, eaten))
    return n


def blocking_under_lock_rules(ctx, rule, paths, only=None):
    """No unbounded wait while a lock is held with `with`: a Queue.get that may block, Event.wait, Thread.join or sleep inside the body
    of `with self.<lock>` keeps every other user of that lock out for as long as the wait lasts (if the thread that would end the wait
    needs the lock: forever)."""
    m = ctx.model
    n = 0
    for path in paths:
        for f in m.mod(path).all_funcs():
            if only is not None and (path, f.qualname) not in only:
                continue
            for w in [x for x in walk_own(f.node) if isinstance(x, ast.With)]:
                locks = [norm(i.context_expr) for i in w.items if 'lock' in norm(i.context_expr).lower()]
                if not locks:
                    continue
                waits = []
                for s_ in w.body:
                    for y in walk_own(s_):
                        if not (isinstance(y, ast.Call) and isinstance(y.func, ast.Attribute)):
                            continue
                        a = y.func.attr
                        kw = {k.arg: k.value for k in y.keywords}
                        if a == 'get' and ('queue' in norm(y.func.value).lower() or 'block' in kw or 'timeout' in kw):
                            nb = (y.args and isinstance(y.args[0], ast.Constant) and y.args[0].value is False) or \
                                 (isinstance(kw.get('block'), ast.Constant) and kw['block'].value is False)
                            if not nb:
                                waits.append(norm(y)[:50])
                        elif a in ('wait', 'join') and not norm(y.func.value).startswith(("'", '"', 'os.path', 'b')):
                            waits.append(norm(y)[:50])
                        elif a == 'sleep' and norm(y.func.value) == 'time':
                            waits.append(norm(y)[:50])
                n += 1
                ctx.inst(rule, f, 'no-wait-under:%s@%d' % (locks[0], int(w.lineno)), not waits, 'blocking calls inside `with %s`: %s' % (locks[0], waits), line=w.lineno)
    return n


def one_shot_callback_rules(ctx, rule, func, attr):
    """`self.<attr>(...)` is a completion callback for one request: every call of it is followed, on every path to the end of the
    function, by `self.<attr> = None` (a callback that stays installed makes the next update() believe a read is still running)."""
    g = cfg_of(func)
    calls = [n for n, c in g.find(lambda q: isinstance(q, ast.Call) and norm(q.func) == 'self.' + attr)]
    clears = [n for n in g.nodes if n.kind == 'stmt' and isinstance(n.ast, ast.Assign) and any(norm(t) == 'self.' + attr for t in n.ast.targets) and
              isinstance(n.ast.value, ast.Constant) and n.ast.value.value is None]
    # a same-class helper that clears it counts as well
    if func.cls is not None:
        for n, c in g.find(lambda q: isinstance(q, ast.Call) and isinstance(q.func, ast.Attribute) and norm(q.func.value) == 'self' and func.cls.has(q.func.attr)):
            h = func.cls.method(c.func.attr)
            if any(isinstance(s, ast.Assign) and any(norm(t) == 'self.' + attr for t in s.targets) and isinstance(s.value, ast.Constant) and s.value.value is None for s in h.node.body):
                clears.append(n)
    leaks = [n.line for n in calls if g.path_avoiding(n, [g.exit], avoid=clears) is not None]
    ctx.inst(rule, func, 'one-shot:' + attr, bool(calls) and not leaks, 'calls of self.%s at lines %s can leave it installed' % (attr, leaks))


def leaves_for_legal_value(func, param, values, kinds=('raise', 'return')):
    """[(node, value)] - a raise / bare return of ``func`` that is reached for a LEGAL value of ``param``: every branch condition that
    dominates it can be decided from the value alone and holds.  A condition that cannot be decided from the value (it looks at
    other state) makes the exit a different matter and is not reported."""
    from .consteval import UNKNOWN, Scope, fold
    g = cfg_of(func)
    out = []
    for n in g.nodes:
        if n.kind not in kinds:
            continue
        if n.kind == 'return' and n.ast is not None and getattr(n.ast, 'value', None) is not None:
            continue
        conds = [e.label for e in g.dominating_edges(n) if e.label and e.label[0] == 'cond']
        if not conds:
            continue
        if not all(any(isinstance(x, ast.Name) and x.id == param for x in ast.walk(c[1])) for c in conds):
            continue
        if g.reaching_defs(n, param) and any(d is not g.entry for d in g.reaching_defs(n, param)):
            continue                                   # the parameter was re-bound on the way
        for v in values:
            sc = Scope.of(func, {param: v})
            res = [fold(c[1], sc) for c in conds]
            if any(r is UNKNOWN for r in res):
                break
            if all(bool(r) == bool(c[2]) for r, c in zip(res, conds)):
                out.append((n, v))
                break
    return out


def straightline_paths(func, limit=64, with_env=False, skip_calls=False):
    """[( ((test text, polarity), ..), returned text )] for a function made of plain bindings, ifs and returns only - every local
    replaced by the expression it was bound to (calls included: the caller vouches that they are pure).  None for anything else."""
    import copy as _copy
    out = []
    envs = []

    class Sub(ast.NodeTransformer):
        def __init__(self, env):
            self.env = env

        def visit_Name(self, n):
            if isinstance(n.ctx, ast.Load) and n.id in self.env:
                return _copy.deepcopy(self.env[n.id])
            return n

    def sub(e, env):
        return Sub(env).visit(_copy.deepcopy(e))

    def run(stmts, env, conds):
        # -> list of (env, conds) that fall through; appends finished paths to out; raises ValueError on unsupported code
        live = [(env, conds)]
        for st in stmts:
            nxt = []
            for env_, conds_ in live:
                if isinstance(st, ast.Assign) and len(st.targets) == 1 and isinstance(st.targets[0], ast.Name):
                    e2 = dict(env_)
                    e2[st.targets[0].id] = sub(st.value, env_)
                    nxt.append((e2, conds_))
                elif isinstance(st, ast.AnnAssign) and isinstance(st.target, ast.Name) and st.value is not None:
                    e2 = dict(env_)
                    e2[st.target.id] = sub(st.value, env_)
                    nxt.append((e2, conds_))
                elif isinstance(st, ast.AugAssign) and isinstance(st.target, ast.Name) and st.target.id in env_:
                    e2 = dict(env_)
                    e2[st.target.id] = ast.BinOp(left=_copy.deepcopy(env_[st.target.id]), op=st.op, right=sub(st.value, env_))
                    nxt.append((e2, conds_))
                elif isinstance(st, ast.If):
                    t = norm(sub(st.test, env_))
                    nxt += run(st.body, dict(env_), conds_ + ((t, True),))
                    nxt += run(st.orelse, dict(env_), conds_ + ((t, False),))
                elif isinstance(st, ast.Return):
                    out.append((conds_, norm(sub(st.value, env_)) if st.value is not None else None))
                    envs.append(env_)
                elif isinstance(st, ast.Expr) and isinstance(st.value, ast.Constant):
                    nxt.append((env_, conds_))
                elif isinstance(st, ast.Pass):
                    nxt.append((env_, conds_))
                elif skip_calls and isinstance(st, ast.Expr) and isinstance(st.value, ast.Call):
                    nxt.append((env_, conds_))               # a call made for its effect: the caller looks at the bindings only
                else:
                    raise ValueError(type(st).__name__)
                if len(nxt) + len(out) > limit:
                    raise ValueError('too many paths')
            live = nxt
        return live
    try:
        rest = run(func.node.body, {}, ())
    except ValueError:
        return None
    for env_, conds_ in rest:
        out.append((conds_, None))
        envs.append(env_)
    if with_env:
        return [(c_, r_, e_) for (c_, r_), e_ in zip(out, envs)]
    return out


IMMEDIATE_CONSUMERS = {'map', 'filter', 'sorted', 'min', 'max', 'sum', 'any', 'all', 'list', 'tuple', 'next', 'reduce', 'functools.reduce'}


def language_pitfall_rules(ctx, rule, paths, only=None):
    """Three conditions that are independent of the property and cheap to state exactly:
    * a comparison by identity with a number / string / bytes / tuple literal (`x is 0`, `s is not ''`) asks whether two objects are
      the same object, which for equal values is an accident of the interpreter (small-int and string caches);
    * a lambda / nested function created in a loop that reads the loop variable and is handed to something that runs it later (a
      thread, a timer, a callback list) sees the variable's LAST value (late binding) - unless the value is bound at creation
      (default argument, functools.partial);
    * `return` / `break` / `continue` inside `finally` swallows whatever exception was on its way."""
    m = ctx.model
    n = 0
    for path in paths:
        for f in m.mod(path).all_funcs():
            if only is not None and (path, f.qualname) not in only:
                continue
            bad_is = []
            for c in walk_own(f.node):
                if isinstance(c, ast.Compare):
                    ops = [c.left] + list(c.comparators)
                    for op, a, b in zip(c.ops, ops, ops[1:]):
                        if isinstance(op, (ast.Is, ast.IsNot)):
                            for x in (a, b):
                                if (isinstance(x, ast.Constant) and not isinstance(x.value, bool) and x.value is not None and x.value is not Ellipsis) or \
                                        (isinstance(x, (ast.Tuple, ast.List, ast.Dict, ast.Set, ast.JoinedStr))):
                                    bad_is.append('%s (line %d)' % (norm(c)[:50], c.lineno))
            # `[Obj()] * n` / `[[]] * n` / `[{}] * n`: n references to ONE object - setting a field of one element sets it in all
            aliased = []
            for c in walk_own(f.node):
                if isinstance(c, ast.BinOp) and isinstance(c.op, ast.Mult):
                    for lst in (c.left, c.right):
                        if isinstance(lst, (ast.List, ast.Tuple)) and any(
                                isinstance(e, (ast.List, ast.Dict, ast.Set)) or
                                (isinstance(e, ast.Call) and (dotted(e.func) or '').split('.')[-1][:1].isupper() and (dotted(e.func) or '').split('.')[-1] not in ('Decimal', 'Fraction')) or
                                (isinstance(e, ast.Call) and (dotted(e.func) or '') in ('list', 'dict', 'set', 'bytearray'))
                                for e in lst.elts):
                            aliased.append('%s (line %d)' % (norm(c)[:50], c.lineno))
            n += 1
            ctx.inst(rule, f, 'no-aliased-elements-by-list-multiplication', not aliased, 'a list built by multiplying a one-element list holds the SAME object in every position: %s' % aliased)
            n += 1
            ctx.inst(rule, f, 'no-identity-test-with-a-literal', not bad_is, 'identity comparison with a literal value: %s - equal values need not be the same object' % bad_is)
            late = []
            for loop in [l for l in walk_own(f.node) if isinstance(l, ast.For)]:
                lvars = {x.id for x in ast.walk(loop.target) if isinstance(x, ast.Name)}
                # names (re)bound in the loop body count as per-iteration values too
                for st in loop.body:
                    for x in walk_own(st):
                        if isinstance(x, ast.Name) and isinstance(x.ctx, ast.Store):
                            lvars.add(x.id)
                for st in loop.body:
                    for call in [c for c in ast.walk(st) if isinstance(c, ast.Call)]:
                        callee = dotted(call.func) or ''
                        if callee in IMMEDIATE_CONSUMERS:
                            continue
                        for a in list(call.args) + [k.value for k in call.keywords]:
                            if isinstance(a, ast.Lambda):
                                own = {p.arg for p in a.args.args + a.args.kwonlyargs} | ({a.args.vararg.arg} if a.args.vararg else set())
                                free = {x.id for x in ast.walk(a.body) if isinstance(x, ast.Name) and isinstance(x.ctx, ast.Load)} - own
                                hit = sorted(free & lvars)
                                # only deferred execution matters: the callee keeps the callable (thread, timer, callback registration)
                                deferred = callee.split('.')[-1] in ('Thread', 'Timer', 'add_callback', 'add_port_callback', 'add_header_callback', 'submit', 'call_later', 'append', 'put')
                                if hit and deferred:
                                    late.append('lambda reading %s handed to %s (line %d)' % (hit, callee, call.lineno))
            n += 1
            ctx.inst(rule, f, 'no-late-binding-closure-in-loop', not late, 'a callable created in a loop and run later reads the loop variables when it runs, not when it was made: %s' % late)
            # a search loop (`for x in xs: if match(x): break`) without else leaves x bound to the LAST element when nothing matched
            # (or to whatever it was before, for an empty xs): reading x after such a loop takes a non-match for a match
            stale = []
            g_ = None
            for loop in [l for l in walk_own(f.node) if isinstance(l, ast.For) and not l.orelse]:
                def _own_break(stmts):
                    for x in stmts:
                        if isinstance(x, ast.Break):
                            return True
                        if isinstance(x, (ast.For, ast.While, ast.FunctionDef, ast.AsyncFunctionDef, ast.ClassDef)):
                            continue
                        for fld in ('body', 'orelse', 'finalbody'):
                            if _own_break(getattr(x, fld, []) or []):
                                return True
                        for h in getattr(x, 'handlers', []) or []:
                            if _own_break(h.body):
                                return True
                    return False
                if not _own_break(loop.body):
                    continue
                lv = {x.id for x in ast.walk(loop.target) if isinstance(x, ast.Name)}
                if g_ is None:
                    g_ = cfg_of(f)
                ln = [n_ for n_ in g_.nodes if n_.kind == 'for' and n_.ast is loop]
                if not ln:
                    continue
                body_ids = {n_.id for n_ in g_.loop_body_nodes(ln[0])}
                # reads of the loop variable reachable from the loop's exhaustion edge, outside the loop, whose reaching definitions
                # include the loop target itself
                for n_ in g_.nodes:
                    if n_.id in body_ids or n_ is ln[0] or n_.ast is None or n_.kind not in ('stmt', 'if', 'while', 'return', 'for'):
                        continue
                    from .cfg import _own_exprs
                    reads = {x.id for root in _own_exprs(n_.ast) for x in walk_own(root) if isinstance(x, ast.Name) and isinstance(x.ctx, ast.Load)} & lv
                    for v in reads:
                        defs = g_.reaching_defs(n_, v)
                        if any(d is ln[0] for d in defs) and g_.path_avoiding(ln[0], [n_], avoid=[], avoid_edges=[e for e in ln[0].succ if e.dst.id in body_ids]) is not None:
                            stale.append('%s read at line %d after the search loop at line %d' % (v, getattr(n_.ast, 'lineno', 0), loop.lineno))
            n += 1
            ctx.inst(rule, f, 'search-loop-variable-not-read-after-the-loop', not stale,
                     'after a for loop that ends without break the loop variable is the last element, not a match: %s' % sorted(set(stale))[:3])
            fin = []
            for t in [t for t in walk_own(f.node) if isinstance(t, ast.Try) and t.finalbody]:
                for st in t.finalbody:
                    for x in walk_own(st):
                        if isinstance(x, ast.Return):
                            fin.append('return in finally (line %d)' % x.lineno)
                        if isinstance(x, (ast.Break, ast.Continue)) and not any(isinstance(l, (ast.For, ast.While)) and any(y is x for y in ast.walk(l)) for l in walk_own(st)):
                            fin.append('%s in finally (line %d)' % (type(x).__name__.lower(), x.lineno))
            n += 1
            ctx.inst(rule, f, 'finally-does-not-swallow', not fin, 'leaving a finally block with return / break / continue discards the exception in flight: %s' % fin)
    return n


def new_state_locals(func):
    """locals of ``func`` (after normalisation) that the reference function does not have and that are bound more than once: new state
    the function carries along (a shadow counter, a remembered length).  A guard written in terms of such a local says something
    the rules cannot read off: the honest outcome is no verdict."""
    from .alpha import _ref as _names, binding_order
    want = (_names().get(func.module.path) or {}).get(func.qualname)
    if want is None:
        return set()
    have = binding_order(func.node)
    out = set()
    for n in have:
        if n in want:
            continue
        stores = [x for x in walk_own(func.node) if isinstance(x, ast.Name) and x.id == n and isinstance(x.ctx, ast.Store)]
        if len(stores) > 1:
            out.add(n)
    return out


# ---------------------------------------------------------------------------------------------------------------- byte-string builders
class _Bytes:
    """the abstract value of a byte string under construction: a list of pieces, each a short canonical text"""

    def __init__(self, pieces):
        self.pieces = list(pieces)

    def __repr__(self):
        return ' ++ '.join(self.pieces) or '<empty>'


def byte_image(func, sink):
    """{path condition tuple: [pieces]} - what ``func`` hands to the call ``sink`` (predicate on ast.Call, the image is its last positional
    argument), with the image followed back through the locals that build it: bytearray()/bytes()/b'' start empty, `+`, `+=`, `.append`,
    `.extend`, `b''.join(list built by appends)`, `struct.pack(fmt, ..)` and loops appending per element.  A piece is written
    `pack(<fmt>; <args>)`, `byte(<e>)`, `token(<name>)`, `each(<var> in <iter>: <pieces>)`, `crc(<expr>)`... ; anything not understood
    is an opaque `?(<text>)`.  None when the function is not plain enough (only assignments, ifs, fors over plain bodies, calls)."""
    import copy as _copy

    def val(e, env):
        # -> _Bytes or None (not a byte string we follow)
        if isinstance(e, ast.Constant) and isinstance(e.value, (bytes, bytearray)):
            return _Bytes(['lit(%s)' % e.value.hex()] if e.value else [])
        if isinstance(e, ast.Name):
            v = env.get(e.id)
            if isinstance(v, _Bytes):
                return _Bytes(v.pieces)
            if isinstance(v, list):
                return None
            return _Bytes(['token(%s)' % e.id]) if e.id.isupper() else None
        if isinstance(e, ast.Call):
            f = norm(e.func)
            if f in ('bytearray', 'bytes') and not e.keywords:
                if not e.args:
                    return _Bytes([])
                inner = val(e.args[0], env)
                if inner is not None:
                    return inner
                return _Bytes(['?(%s)' % norm(e.args[0])])
            if f in ('struct.pack',) and e.args:
                args = []
                for a in e.args[1:]:
                    if isinstance(a, ast.Starred) and isinstance(a.value, ast.Name) and isinstance(env.get(a.value.id), ast.Tuple):
                        args.extend(norm(x) for x in env[a.value.id].elts)
                    else:
                        args.append(norm(a))
                fmt = norm(e.args[0]).strip("'\"")
                if fmt.lstrip('<>=!') == 'B' and len(args) == 1:
                    return _Bytes(['byte(%s)' % expand(args[0], env)])
                return _Bytes(['pack(%s; %s)' % (fmt, ', '.join(expand(a, env) for a in args))])
            if isinstance(e.func, ast.Attribute) and e.func.attr == 'join' and isinstance(e.func.value, ast.Constant) and e.func.value.value == b'' and len(e.args) == 1:
                a = e.args[0]
                if isinstance(a, ast.Name) and isinstance(env.get(a.id), list):
                    out = []
                    for p_ in env[a.id]:
                        out.extend(p_.pieces)
                    return _Bytes(out)
                if isinstance(a, (ast.Tuple, ast.List)):
                    out = []
                    for x in a.elts:
                        vx = val(x, env)
                        out.extend(vx.pieces if vx is not None else ['?(%s)' % norm(x)])
                    return _Bytes(out)
            if isinstance(e.func, ast.Attribute) and e.func.attr == 'encode':
                return _Bytes(['enc(%s)' % norm(e)])
            return None
        if isinstance(e, ast.BinOp) and isinstance(e.op, ast.Add):
            a, b = val(e.left, env), val(e.right, env)
            if a is not None or b is not None:
                return _Bytes((a.pieces if a is not None else ['?(%s)' % norm(e.left)]) + (b.pieces if b is not None else ['?(%s)' % norm(e.right)]))
        return None

    def expand(text, env):
        # scalars computed from an image so far (`crc32(x) & 255`, `self._checksum256(image)`) name the image they were taken of
        try:
            e = ast.parse(text, mode='eval').body
        except SyntaxError:
            return text
        if isinstance(e, ast.Name) and isinstance(env.get(e.id), str):
            return env[e.id]
        for n in ast.walk(e):
            if isinstance(n, ast.Name) and isinstance(env.get(n.id), _Bytes):
                return '%s[%s]' % (norm(e), ' ++ '.join(env[n.id].pieces))
        return text

    results = {}

    def run(stmts, env, conds):
        live = [(env, conds)]
        for st in stmts:
            nxt = []
            for env_, conds_ in live:
                e2 = dict(env_)
                if is_noise(st) or (isinstance(st, ast.Expr) and isinstance(st.value, ast.Constant)):
                    nxt.append((e2, conds_))
                    continue
                if isinstance(st, ast.Assign) and len(st.targets) == 1 and isinstance(st.targets[0], ast.Name):
                    t = st.targets[0].id
                    v = val(st.value, e2)
                    if v is not None:
                        e2[t] = v
                    elif isinstance(st.value, ast.List) and not st.value.elts:
                        e2[t] = []
                    elif isinstance(st.value, ast.Tuple):
                        e2[t] = st.value
                    else:
                        e2[t] = expand(norm(st.value), e2)
                    nxt.append((e2, conds_))
                elif isinstance(st, ast.Assign) and len(st.targets) == 1 and isinstance(st.targets[0], ast.Attribute):
                    nxt.append((e2, conds_))
                elif isinstance(st, ast.AugAssign) and isinstance(st.op, ast.Add) and isinstance(st.target, ast.Name) and isinstance(e2.get(st.target.id), _Bytes):
                    v = val(st.value, e2)
                    e2[st.target.id] = _Bytes(e2[st.target.id].pieces + (v.pieces if v is not None else ['?(%s)' % norm(st.value)]))
                    nxt.append((e2, conds_))
                elif isinstance(st, ast.Expr) and isinstance(st.value, ast.Call):
                    c = st.value
                    if isinstance(c.func, ast.Attribute) and isinstance(c.func.value, ast.Name) and c.func.attr in ('append', 'extend') and len(c.args) == 1:
                        tgt = e2.get(c.func.value.id)
                        if isinstance(tgt, _Bytes):
                            if c.func.attr == 'append':
                                e2[c.func.value.id] = _Bytes(tgt.pieces + ['byte(%s)' % expand(norm(c.args[0]), e2)])
                            else:
                                v = val(c.args[0], e2)
                                e2[c.func.value.id] = _Bytes(tgt.pieces + (v.pieces if v is not None else ['?(%s)' % norm(c.args[0])]))
                        elif isinstance(tgt, list) and c.func.attr == 'append':
                            v = val(c.args[0], e2)
                            e2[c.func.value.id] = tgt + [v if v is not None else _Bytes(['?(%s)' % norm(c.args[0])])]
                    if sink(c):
                        a = c.args[-1] if c.args else None
                        img = None
                        if isinstance(a, ast.Call) and norm(a.func) == 'tuple' and len(a.args) == 1:
                            img = val(a.args[0], e2)
                        elif isinstance(a, ast.Call) and norm(a.func) == 'struct.unpack' and len(a.args) == 2:
                            img = val(a.args[1], e2)
                        elif a is not None:
                            img = val(a, e2)
                        results[conds_] = img.pieces if img is not None else ['?(%s)' % (norm(a) if a is not None else '')]
                    nxt.append((e2, conds_))
                elif isinstance(st, ast.If):
                    t = norm(st.test)
                    nxt += run(st.body, dict(e2), conds_ + ((t, True),))
                    nxt += run(st.orelse, dict(e2), conds_ + ((t, False),))
                elif isinstance(st, ast.For) and not st.orelse:
                    # one symbolic turn of the body: what every followed byte string gained is an `each(..)` piece
                    before = {k: list(v.pieces) if isinstance(v, _Bytes) else (list(v) if isinstance(v, list) else None) for k, v in e2.items()}
                    inner = run(st.body, dict(e2), conds_)
                    if len(inner) != 1:
                        raise ValueError('branching loop body')
                    e3 = inner[0][0]
                    for k, v in e3.items():
                        if isinstance(v, _Bytes) and before.get(k) is not None and isinstance(e2.get(k), _Bytes) and len(v.pieces) > len(before[k]):
                            gained = v.pieces[len(before[k]):]
                            e2[k] = _Bytes(before[k] + ['each(%s in %s: %s)' % (norm(st.target), norm(st.iter), ' ++ '.join(gained))])
                        elif isinstance(v, list) and isinstance(before.get(k), list) and isinstance(e2.get(k), list) and len(v) > len(before[k]):
                            gained = [p_ for x in v[len(before[k]):] for p_ in x.pieces]
                            e2[k] = before_list(e2[k]) + [_Bytes(['each(%s in %s: %s)' % (norm(st.target), norm(st.iter), ' ++ '.join(gained))])]
                    nxt.append((e2, conds_))
                elif isinstance(st, (ast.Return, ast.Raise)):
                    pass
                else:
                    raise ValueError(type(st).__name__)
            live = nxt
        return live

    def before_list(v):
        return list(v)
    try:
        run(func.node.body, {}, ())
    except ValueError:
        return None
    return results


def undefined_name_rules(ctx, rule, paths, only=None):
    """Every name a function reads resolves: it is a local, a name of an enclosing function, a name bound at module level (import,
    def, class, assignment - anywhere at module level, also under if / try), a name some function binds through `global`, or a
    builtin.  Scopes come from the compiler's own symbol table (symtable) over the file's text, so comprehension scopes, nested
    functions, `global` / `nonlocal` are exactly the interpreter's.  A function-level `import x` that is deleted while `x.f()` stays
    (typically inside an exception handler, where no test goes) turns the handler into a NameError."""
    import builtins
    import symtable
    m = ctx.model
    n = 0
    for path in paths:
        mod = m.mod(path)
        try:
            top = symtable.symtable(mod.text, path, 'exec')
        except SyntaxError:
            continue
        known = {s.get_name() for s in top.get_symbols() if s.is_assigned() or s.is_imported() or s.is_namespace()}
        known |= set(dir(builtins)) | {'__file__', '__name__', '__doc__', '__package__', '__spec__', '__loader__', '__builtins__', '__path__', '__class__'}
        try:
            raw = ast.parse(mod.text)
        except SyntaxError:
            continue
        if any(isinstance(x, ast.ImportFrom) and any(a.name == '*' for a in x.names) for x in ast.walk(raw)):
            continue                                        # a star import binds names this analysis cannot see
        funcs = []

        def rec(t, qual, owner):
            for ch in t.get_children():
                kind = ch.get_type()
                kind = kind if isinstance(kind, str) else str(kind).split('.')[-1].lower()
                nm = ch.get_name()
                if kind == 'class':
                    rec(ch, qual + [nm], None)
                elif kind == 'function':
                    if owner is None and nm not in ('lambda', 'listcomp', 'genexpr', 'setcomp', 'dictcomp'):
                        q = '.'.join(qual + [nm])
                        funcs.append((q, ch))
                        rec(ch, qual + [nm], q)
                    else:
                        funcs.append((owner, ch))           # lambdas, comprehensions and nested functions count for their owner
                        rec(ch, qual, owner)
                else:
                    rec(ch, qual, owner)
        rec(top, [], None)
        for _, t in funcs:
            known |= {s.get_name() for s in t.get_symbols() if s.is_declared_global() and s.is_assigned()}
        missing = {}
        for q, t in funcs:
            for s in t.get_symbols():
                if s.is_referenced() and s.is_global() and s.get_name() not in known:
                    missing.setdefault(q, set()).add(s.get_name())
        byq = {f.qualname: f for f in mod.all_funcs()}
        for q in sorted({q for q, _ in funcs if q}):
            if only is not None and (path, q) not in only:
                continue
            f = byq.get(q)
            if f is None:
                continue
            n += 1
            ctx.inst(rule, f, 'every-name-resolves', not missing.get(q), 'names read in %s that nothing binds (no local, module-level or builtin binding): %s '
                     '- reaching the line raises NameError' % (q, sorted(missing.get(q, ()))))
    return n


def argument_order_rules(ctx, rule, paths, only=None):
    """Two arguments that are passed under each other's name: `f(cb, port, channel, channel_mask, port_mask)` where f is declared
    `f(cb, port, channel, port_mask, channel_mask)`.  The callee is resolved by name when every definition of that name in the
    package has the same parameter list; only plain-name arguments that ARE parameter names of the callee are compared, and only a
    crossed pair is reported (x passed as y AND y passed as x)."""
    from .unrefactor import _package_signatures
    m = ctx.model
    sigs = _package_signatures(m)
    n = 0
    for path in paths:
        for f in m.mod(path).all_funcs():
            if only is not None and (path, f.qualname) not in only:
                continue
            crossed = []
            for c in walk_own(f.node):
                if not isinstance(c, ast.Call) or any(isinstance(a, ast.Starred) for a in c.args):
                    continue
                fn = c.func
                cand = sigs.get(fn.id) if isinstance(fn, ast.Name) else sigs.get('.' + fn.attr) if isinstance(fn, ast.Attribute) and fn.attr != '__init__' else None
                if not cand or len(cand) != 1 or None in cand:
                    continue
                params = list(next(iter(cand)))
                names = [a.id if isinstance(a, ast.Name) else None for a in c.args]
                for i, a in enumerate(names):
                    if a is None or i >= len(params) or a == params[i] or a not in params:
                        continue
                    j = params.index(a)
                    if j < len(names) and names[j] == params[i] and i < j:
                        crossed.append('%s: %s <-> %s (line %d)' % (norm(c.func), a, names[j], c.lineno))
            n += 1
            ctx.inst(rule, f, 'arguments-under-their-own-names', not crossed, 'arguments passed under each other\'s parameter name: %s' % (crossed or 'none'))
    return n
