"""F-05b (C05): a raw-memory log variable makes the block-creation message construction
raise TypeError (bytes appended to a bytearray element-wise).  Exit 1 = defect present."""
import sys
from cflib.crazyflie import Crazyflie
from cflib.crazyflie.log import LogConfig
from cflib.crazyflie.toc import Toc
from _stub import StubLink

cf = Crazyflie(rw_cache=None)
link = StubLink(needs_resending=False)
cf.link = link
cf.log.toc = Toc()
cf.log._useV2 = True
lc = LogConfig('raw', 100)
for i in range(7):
    lc.add_memory('m%d' % i, 'uint8_t', 'uint32_t', 0x20000000 + 4 * i)
cf.log.add_config(lc)
try:
    lc.create()
except TypeError as ex:
    print('create() raised TypeError:', ex)
    sys.exit(1)
msgs = [d for h, d in link.sent if d[:1] in (b'\x06', b'\x07')]
print('messages:', [m.hex() for m in msgs])
ok = all(len(m) <= 30 for m in msgs) and sum((len(m) - 2) // 5 for m in msgs) == 7 and all((len(m) - 2) % 5 == 0 for m in msgs)
print('7 variables in whole 5-byte records, every message <= 30 bytes:', ok)
sys.exit(0 if ok else 1)
