"""F-20b (C20, recorded - not repaired): with USE_CFLINK=cpp the first driver in CLASSES is
CfLinkCppDriver, whose connect() has no scheme gate: it hands every URI to the native
library and can never raise WrongUriType, so tcp://, udp://, prrt:// and serial:// URIs
never reach their own drivers.  The native library is not installed in this sandbox; a stub
module whose Connection() rejects schemes it does not know (as any implementation must)
stands in for it.  Exit 1 = defect present."""
import os
import sys
import types

stub = types.ModuleType('cflinkcpp')


class Connection:
    def __init__(self, uri):
        if not (uri.startswith('radio://') or uri.startswith('usb://')):
            raise RuntimeError('cflinkcpp: unsupported uri ' + uri)
        self.statistics = None


stub.Connection = Connection
stub.Packet = object
sys.modules['cflinkcpp'] = stub
os.environ['USE_CFLINK'] = 'cpp'
import cflib.crtp  # noqa: E402
cflib.crtp.CLASSES.clear()
cflib.crtp.init_drivers()
print('driver order:', [c.__name__ for c in cflib.crtp.CLASSES])
try:
    d = cflib.crtp.get_link_driver('tcp://127.0.0.1:1')
    print('tcp:// handled by', type(d).__name__)
    sys.exit(0)
except RuntimeError as e:
    print('tcp:// URI was claimed by CfLinkCppDriver and failed there:', e)
    sys.exit(1)
except TypeError as e:          # this snapshot: CfLinkCppDriver() itself cannot be constructed
    print('tcp:// URI died in the first driver (CfLinkCppDriver):', e)
    sys.exit(1)
except Exception as e:          # reached TcpDriver (connection refused) = scheme dispatch worked
    print('tcp:// reached', type(e).__name__, e)
    sys.exit(0)
