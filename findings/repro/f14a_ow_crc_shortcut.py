"""F-14a (C14): OWElement.new_data hands data[9:11] (element length + first element byte)
to the element parser as if it were a whole element area.  When crc32([length]) & 0xff
equals the first element id the image is reported valid with no elements parsed.
Exit 1 = defect present."""
import struct
import sys
from binascii import crc32
from cflib.crazyflie.mem.ow_element import OWElement


class Handler:
    def __init__(self, image):
        self.image = image
        self.target = None

    def read(self, mem, addr, length):
        self.pending = (addr, length)

    def pump(self):
        while getattr(self, 'pending', None):
            addr, length = self.pending
            self.pending = None
            self.target.new_data(self.target, addr, self.image[addr:addr + length])


def image_for(elements):
    hdr = struct.pack('<BIBB', 0xEB, 0x0C, 0xBC, 0x01)
    hdr += struct.pack('B', crc32(hdr) & 0xff)
    elem = bytearray()
    for k, s in elements:
        elem += struct.pack('BB', k, len(s)) + s.encode()
    area = struct.pack('BB', 0, len(elem)) + elem
    area += struct.pack('B', crc32(area) & 0xff)
    return bytes(hdr + area)


bad = 0
for elements in ([(2, 'abc')], [(1, 'bcLedRing'), (2, 'B')]):
    img = image_for(elements)
    h = Handler(img)
    ow = OWElement(id=1, type=1, size=112, addr='00', mem_handler=h)
    h.target = ow
    done = []
    ow.update(lambda m: done.append(m))
    h.pump()
    print('elements written %s -> valid=%s parsed=%s' % (elements, ow.valid, ow.elements))
    if ow.valid and len(ow.elements) != len(elements):
        bad = 1
sys.exit(bad)
