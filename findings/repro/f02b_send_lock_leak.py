"""F-02b (C02): a driver whose send_packet raises (e.g. socket error on a dead TCP/UDP link)
leaves Crazyflie._send_lock held; close_link() then deadlocks.  Exit 1 = defect present."""
import sys
import threading
from cflib.crazyflie import Crazyflie
from _stub import StubLink, packet


class Broken(StubLink):
    def send_packet(self, pk):
        raise OSError('connection reset')


cf = Crazyflie(rw_cache=None)
cf.link = Broken()
try:
    cf.send_packet(packet(2, 1, (7,)))
except OSError:
    pass
done = threading.Event()


def closer():
    try:
        cf.close_link()
    except OSError:
        pass
    done.set()


threading.Thread(target=closer, daemon=True).start()
ok = done.wait(1.0)
print('close_link returned' if ok else 'close_link DEADLOCKED on the leaked send lock')
sys.exit(0 if ok else 1)
