"""F-02g (C02): Crazyflie.send_packet tests `self.link is not None` under the send lock and then loads `self.link`
again (`self.link.needs_resending`, `self.link.send_packet(pk)`).  `_link_error_cb` - called by the link driver
from ITS thread - sets `self.link = None` without the send lock.  When the error arrives between the test and
the use, the sending thread (the parameter updater, the extended-type fetcher, the latency ping or the caller of
the API) dies with AttributeError: 'NoneType' object has no attribute 'send_packet'; a dead parameter updater
makes every later connection on the same object hang in the parameter download.  Same for close_link() and
_link_error_cb() themselves (`if self.link is not None: self.link.close()`).

The interleaving is made deterministic: the fake driver reports the link error from a second thread at the
moment send_packet reads `needs_resending`, i.e. after the test and before the transmission.
Exit 1 = defect present."""
import sys
import threading

from cflib.crazyflie import Crazyflie
from cflib.crtp.crtpstack import CRTPPacket


class Driver:
    """a link driver that loses the link between two statements of send_packet"""

    def __init__(self, cf):
        self.cf = cf
        self.sent = []
        self.closed = 0
        self._reported = False

    @property
    def needs_resending(self):
        if not self._reported:
            self._reported = True
            t = threading.Thread(target=self.cf._link_error_cb, args=('Too many packets lost',))
            t.start()
            t.join()                      # the driver's thread ran _link_error_cb to completion
        return False

    def send_packet(self, pk):
        self.sent.append(pk)
        return True

    def close(self):
        self.closed += 1


cf = Crazyflie(rw_cache=None)
drv = Driver(cf)
cf.link = drv
pk = CRTPPacket()
pk.set_header(2, 0)
pk.data = (1, 2, 3)
try:
    cf.send_packet(pk, expected_reply=(1,))
except AttributeError as e:
    print('sending thread died:', e)
    sys.exit(1)
print('send_packet survived the link error; link closed %d time(s), state %s' % (drv.closed, cf.state))
sys.exit(0)
