"""Shared stub link for the reproductions (not a check)."""
import threading
from cflib.crtp.crtpstack import CRTPPacket


class StubLink:
    def __init__(self, needs_resending=True):
        self.needs_resending = needs_resending
        self.sent = []
        self.closed = False
        self.rx = []
        self.cond = threading.Condition()

    def send_packet(self, pk):
        self.sent.append((pk.header, bytes(pk.data)))

    def receive_packet(self, t=0):
        with self.cond:
            if not self.rx:
                self.cond.wait(0.02)
            return self.rx.pop(0) if self.rx else None

    def push(self, port, chan, data):
        pk = CRTPPacket()
        pk.set_header(port, chan)
        pk.data = data
        with self.cond:
            self.rx.append(pk)
            self.cond.notify()

    def close(self):
        self.closed = True


def packet(port, chan, data=()):
    pk = CRTPPacket()
    pk.set_header(port, chan)
    pk.data = data
    return pk
