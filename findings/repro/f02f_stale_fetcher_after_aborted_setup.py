"""Behavioural check of the connection life cycle against a simulated Crazyflie.

Run as:  cd <worktree> && PYTHONPATH=<worktree> /venv/bin/python equiv1.py
Exit code 0 = everything as expected (both with and without the patch).
"""
import logging
import queue
import struct
import sys
import threading
import time

import cflib.crtp
from cflib.crazyflie import Crazyflie
from cflib.crazyflie import State
from cflib.crazyflie.syncCrazyflie import SyncCrazyflie
from cflib.crtp.crtpstack import CRTPPacket

# --------------------------------------------------------------------------
# Simulated firmware / link driver
# --------------------------------------------------------------------------
LOG_TOC = [(0x07, 'stab', 'roll'), (0x07, 'pm', 'vbat')]
# (metadata, group, name, value): 'a' is uint8 + extended, 'b' is uint16 RO
PARAM_TOC = [(0x08 | 0x10, 'grp', 'a', 5), (0x09 | 0x40, 'grp', 'b', 300)]
PARAM_FMT = {0x08: '<B', 0x09: '<H'}


class FakeLink:
    def __init__(self, needs_resending=False, stall_on=None, drop_once=()):
        self.needs_resending = needs_resending
        self.rx = queue.Queue()
        self.sent = []
        self.closed = 0
        self.stall_on = stall_on      # (port, channel): never answer these
        self.drop_once = set(drop_once)  # (port, channel, cmd): drop 1st reply
        self.stalled = threading.Event()

    # -- driver API ----------------------------------------------------
    def receive_packet(self, wait=0):
        try:
            return self.rx.get(timeout=0.05)
        except queue.Empty:
            return None

    def send_packet(self, pk):
        port, chan, data = pk.port, pk.channel, bytes(pk.data)
        if not (port == 15 and chan == 0) and not (port == 3):
            self.sent.append((port, chan, data))
        if self.stall_on == (port, chan):
            self.stalled.set()
            return
        key = (port, chan, data[0] if data else None)
        if key in self.drop_once:
            self.drop_once.discard(key)
            return
        for reply in self._answer(port, chan, data):
            rp = CRTPPacket()
            rp.set_header(port, chan)
            rp.data = reply
            self.rx.put(rp)

    def close(self):
        self.closed += 1

    # -- firmware ------------------------------------------------------
    def _toc(self, toc, data):
        if data[0] == 3:
            return [struct.pack('<BHI', 3, len(toc), 0x1234ABCD)]
        if data[0] == 2:
            idx = data[1] | data[2] << 8
            meta, group, name = toc[idx][:3]
            return [struct.pack('<BHB', 2, idx, meta) +
                    group.encode() + b'\0' + name.encode() + b'\0']
        return []

    def _answer(self, port, chan, data):
        if port == 15 and chan == 1:
            return [b'Bitcraze Crazyflie' + b'\0']
        if port == 15 and chan == 0:
            return [data]
        if port == 13 and chan == 1 and data[0] == 0:
            return [bytes((0, 5))]
        if port == 5 and chan == 1 and data[0] == 5:
            return [bytes((5, 0, 0))]
        if port == 5 and chan == 0:
            return self._toc(LOG_TOC, data)
        if port == 4 and chan == 0 and data[0] == 1:
            return [bytes((1, 0))]
        if port == 2 and chan == 0:
            return self._toc(PARAM_TOC, data)
        if port == 2 and chan == 3 and data[0] == 2:
            return [data[:3] + bytes((1,))]
        if port == 2 and chan == 1:
            idx = struct.unpack('<H', data[:2])[0]
            meta, _, _, value = PARAM_TOC[idx]
            return [data[:2] + b'\0' + struct.pack(PARAM_FMT[meta & 0x0f], value)]
        return []


EXPECTED_SENT = [
    (15, 1, b'\x00'),
    (13, 1, b'\x00'),
    (5, 1, b'\x05'),
    (5, 0, b'\x03'),
    (5, 0, b'\x02\x00\x00'),
    (5, 0, b'\x02\x01\x00'),
    (4, 0, b'\x01'),
    (2, 0, b'\x03'),
    (2, 0, b'\x02\x00\x00'),
    (2, 0, b'\x02\x01\x00'),
    (2, 3, b'\x02\x00\x00'),
    (2, 1, b'\x00\x00'),
    (2, 1, b'\x01\x00'),
]


class Recorder:
    NAMES = ['connection_requested', 'connection_failed', 'link_established',
             'connected', 'fully_connected', 'disconnected', 'connection_lost',
             'disconnected_link_error']

    def __init__(self, cf):
        self.events = []
        self.cond = threading.Condition()
        for name in self.NAMES:
            getattr(cf, name).add_callback(self._make(name))

    def _make(self, name):
        def cb(*args):
            with self.cond:
                self.events.append((name,) + tuple(args))
                self.cond.notify_all()
        return cb

    def names(self):
        with self.cond:
            return [e[0] for e in self.events]

    def wait_for(self, name, count=1, timeout=10):
        with self.cond:
            ok = self.cond.wait_for(
                lambda: [e[0] for e in self.events].count(name) >= count, timeout)
        check(ok, 'timeout waiting for %s (got %s)' % (name, self.names()))

    def clear(self):
        with self.cond:
            self.events = []


class LogCapture(logging.Handler):
    def __init__(self):
        logging.Handler.__init__(self)
        self.messages = []

    def emit(self, record):
        self.messages.append(record.getMessage())


failures = []


def check(cond, msg):
    if not cond:
        failures.append(msg)
        print('FAIL:', msg)


def install(link_factory):
    def get_link_driver(uri, radio_cb=None, error_cb=None):
        return link_factory(uri)
    cflib.crtp.get_link_driver = get_link_driver


def wait_until(pred, timeout=5):
    end = time.time() + timeout
    while time.time() < end:
        if pred():
            return True
        time.sleep(0.01)
    return pred()



links = []


def factory(**kw):
    def make(uri):
        l = FakeLink(**kw)
        links.append(l)
        return l
    return make


def main():
    cf = Crazyflie()
    rec = Recorder(cf)
    # attempt 1: the link dies while the parameter TOC is being downloaded
    import os
    stall = (2, 3) if os.environ.get('STALL') == 'ext' else (2, 0)
    install(factory(stall_on=stall))
    cf.open_link('fake://first')
    assert links[-1].stalled.wait(5)
    cf._link_error_cb('link lost during set-up')
    rec.wait_for('connection_lost')
    rec.clear()
    # attempt 2: same object, healthy link
    install(factory())
    cf.open_link('fake://second')
    rec.wait_for('fully_connected')
    time.sleep(0.5)
    names = rec.names()
    sent = links[-1].sent
    dup = [p for p in set(sent) if sent.count(p) > 1]
    print('events of the second connection:', names)
    print('requests sent more than once   :', sorted(dup))
    cf.close_link()
    bad = names.count('connected') != 1 or dup
    print('VIOLATED' if bad else 'ok')
    sys.exit(1 if bad else 0)


if __name__ == '__main__':
    main()
