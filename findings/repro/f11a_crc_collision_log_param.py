"""F-11a (C11): the cache key is the CRC only.  A log table and a parameter table that
announce the same CRC share one file: the later insert replaces the earlier one and the
log subsystem then adopts a parameter table from the cache.  Exit 1 = defect present."""
import struct
import sys
import tempfile
from cflib.crazyflie.toc import Toc, TocFetcher
from cflib.crazyflie.toccache import TocCache
from cflib.crazyflie.log import LogTocElement
from cflib.crazyflie.param import ParamTocElement
from cflib.crtp.crtpstack import CRTPPacket


class Platform:
    def get_protocol_version(self):
        return 7


class CF:
    platform = Platform()
    sent = []

    def add_port_callback(self, port, cb):
        pass

    def remove_port_callback(self, port, cb):
        pass

    def send_packet(self, pk, expected_reply=(), **kw):
        self.sent.append(bytes(pk.data))


d = tempfile.mkdtemp()
cache = TocCache(rw_cache=d)
pe = ParamTocElement()
pe.ident, pe.group, pe.name, pe.ctype, pe.pytype, pe.access, pe.extended = 0, 'ring', 'effect', 'uint8_t', '<B', 0, False
CRC = 0x1234ABCD
cache.insert(CRC, {'ring': {'effect': pe}})      # parameter table stored under CRC
cf = CF()
toc = Toc()
done = []
f = TocFetcher(cf, LogTocElement, 5, toc, lambda: done.append(1), TocCache(rw_cache=d))
f.start()
info = CRTPPacket()
info.set_header(5, 0)
info.data = struct.pack('<BHI', 3, 1, CRC)       # the LOG table announces the same CRC
f._new_packet_cb(info)
kinds = {type(e).__name__ for g in toc.toc.values() for e in g.values()}
print('log table after the info reply:', {g: list(v) for g, v in toc.toc.items()}, kinds, 'finished' if done else 'downloading')
sys.exit(1 if 'ParamTocElement' in kinds else 0)
