"""F-02e (C02): _IncomingPacketHandler.run tests `self.cf.link is None` and then reads
`self.cf.link` again; when another thread nulls the link in between the dispatcher thread dies
with AttributeError and the Crazyflie object can never connect again.  The interleaving is made
deterministic with an object whose `link` is non-None on the first read and None on the second.
Exit 1 = defect present."""
import sys
import threading
import time
from cflib.crazyflie import _IncomingPacketHandler
from cflib.utils.callbacks import Caller


class Link:
    def receive_packet(self, t):
        time.sleep(0.05)
        return None


class RacyCf:
    def __init__(self):
        self.reads = 0
        self.packet_received = Caller()
        self._link = Link()

    @property
    def link(self):
        self.reads += 1
        if self.reads == 2:          # close_link() ran between the test and the use
            return None
        return self._link


errors = []
threading.excepthook = lambda a: errors.append(a.exc_type.__name__)
h = _IncomingPacketHandler(RacyCf())
h.daemon = True
h.start()
time.sleep(0.4)
print('dispatcher alive:', h.is_alive(), errors)
sys.exit(0 if h.is_alive() else 1)
