"""F-02a (C02): the link fails after the first packet but before `connected`: Crazyflie fires
disconnected + connection_lost, SyncCrazyflie._disconnected does not set the connect event and
SyncCrazyflie.open_link() blocks forever.  Exit 1 = defect present."""
import sys
import threading
from unittest.mock import patch
from cflib.crazyflie import Crazyflie
from cflib.crazyflie.syncCrazyflie import SyncCrazyflie
from _stub import StubLink, packet

link = StubLink(needs_resending=False)
cf = Crazyflie(rw_cache=None)
scf = SyncCrazyflie('stub://0', cf=cf)
result = {}


def opener():
    try:
        scf.open_link()
        result['r'] = 'returned'
    except Exception as e:
        result['r'] = 'raised: %s' % e


with patch('cflib.crtp.get_link_driver', return_value=link):
    t = threading.Thread(target=opener, daemon=True)
    t.start()
    import time
    time.sleep(0.3)
    cf._check_for_initial_packet_cb(packet(15, 1, (0,)))     # first packet: state CONNECTED
    cf._link_error_cb('link lost during set-up')             # driver reports the failure
    t.join(2.0)
print('open_link', result.get('r', 'STILL BLOCKED after the link was lost'))
sys.exit(0 if 'r' in result else 1)
