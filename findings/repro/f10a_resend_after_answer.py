"""F-10a (C10): a retry whose timer already fired is still transmitted after the answer
was consumed, and a request of a closed session is transmitted in the next session.
Exit 1 = defect present."""
import sys
import time
from cflib.crazyflie import Crazyflie
from _stub import StubLink, packet

bad = 0
# (1) the retry path is entered when the pattern is no longer pending
cf = Crazyflie(rw_cache=None)
cf.link = StubLink()
pk = packet(2, 1, (7,))
cf.send_packet(pk, expected_reply=(7,), timeout=10)
pattern = (pk.header, 7)
assert pattern in cf._answer_patterns
cf._check_for_answers(packet(2, 1, (7, 1, 2)))          # answer arrives
assert pattern not in cf._answer_patterns
n = len(cf.link.sent)
cf._no_answer_do_retry(pk, pattern)                    # timer thread that had already fired
if len(cf.link.sent) != n:
    print('retransmitted after the answer was received')
    bad = 1
# (2) old-session request transmitted on the re-opened link
cf2 = Crazyflie(rw_cache=None)
old = StubLink()
cf2.link = old
cf2.send_packet(pk, expected_reply=(7,), timeout=0.1)
cf2.close_link()
new = StubLink()
cf2.link = new                                          # next session
time.sleep(0.3)
leaked = [s for s in new.sent if s[1] == bytes((7,))]
if leaked:
    print('request of the closed session transmitted in the next session:', leaked)
    bad = 1
print('defect present' if bad else 'ok')
sys.exit(bad)
