"""F-10d (C10): a link error nulls the link but keeps the pending patterns and their timers;
if the application re-opens a link before the timer fires (memory requests use 1 s), the
old session's request is retransmitted on the new link.  Exit 1 = defect present."""
import sys
import time
from cflib.crazyflie import Crazyflie, State
from _stub import StubLink, packet

cf = Crazyflie(rw_cache=None)
cf.link = StubLink()
cf.state = State.CONNECTED
cf.send_packet(packet(4, 1, (9, 9)), expected_reply=(9, 9), timeout=0.2)
cf._link_error_cb('lost')                 # link failure
new = StubLink()
cf.link = new                             # application reconnects at once
time.sleep(0.5)
leaked = [s for s in new.sent if s[1] == bytes((9, 9))]
for t in cf._answer_patterns.values():
    t.cancel()
print('old request transmitted on the new link: %d time(s)' % len(leaked))
sys.exit(1 if leaked else 0)
