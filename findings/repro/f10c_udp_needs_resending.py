"""F-10c (C10): UdpDriver never initialises needs_resending; the first request with an
expected reply raises AttributeError inside Crazyflie.send_packet.  Exit 1 = defect present."""
import sys
from cflib.crtp.udpdriver import UdpDriver
d = UdpDriver()
ok = hasattr(d, 'needs_resending')
print('UdpDriver.needs_resending', 'present' if ok else 'MISSING')
sys.exit(0 if ok else 1)
