"""F-04a (C04): the one-shot reply callbacks of persistent_get_state / persistent_store /
persistent_clear / get_default_value match on the command byte only.  With several
requests outstanding the first reply is delivered to every waiting request.
Exit 1 = defect present."""
import struct
import sys
from cflib.crazyflie import Crazyflie
from cflib.crazyflie.param import ParamTocElement, MISC_PERSISTENT_GET_STATE
from cflib.crtp.crtpstack import CRTPPacket, CRTPPort

cf = Crazyflie(rw_cache=None)
for i, name in enumerate(('a', 'b', 'c')):
    e = ParamTocElement()
    e.ident, e.group, e.name, e.ctype, e.pytype, e.access = i, 'g', name, 'uint8_t', '<B', 0
    e.extended = True
    e.persistent = True
    cf.param.toc.add_element(e)
got = []
for name in ('a', 'b', 'c'):
    cf.param.persistent_get_state('g.' + name, lambda n, s: got.append((n, s.default_value if s else None)))
# the device answers the first request only (id 0, not stored, default 11)
pk = CRTPPacket()
pk.set_header(CRTPPort.PARAM, 3)
pk.data = struct.pack('<BHBB', MISC_PERSISTENT_GET_STATE, 0, 0, 11)
for cb in list(cf.incoming.cb):
    if cb.port == CRTPPort.PARAM:
        try:
            cb.callback(pk)
        except Exception:
            pass
print('callbacks after ONE reply (for g.a):', got)
sys.exit(0 if got == [('g.a', 11)] else 1)
