"""F-07a (C07): a port callback that unregisters itself during dispatch hides the
next matching callback for that packet.  Exit 1 = defect present."""
import sys
import threading
from cflib.crazyflie import Crazyflie
from cflib.crtp.crtpstack import CRTPPacket


class Link:
    def __init__(self):
        self.n = 0
        self.done = threading.Event()

    def receive_packet(self, t):
        self.n += 1
        if self.n == 1:
            pk = CRTPPacket()
            pk.set_header(5, 0)
            return pk
        self.done.set()
        threading.Event().wait(0.05)
        return None

    def send_packet(self, pk):
        pass

    def close(self):
        pass
    needs_resending = False


got = []
cf = Crazyflie(rw_cache=None)


def a(pk):
    got.append('a')
    cf.remove_port_callback(5, a)


def b(pk):
    got.append('b')


cf.add_port_callback(5, a)
cf.add_port_callback(5, b)
link = Link()
cf.link = link
cf.incoming.start()
link.done.wait(2)
print('delivered to:', got)
sys.exit(0 if got == ['a', 'b'] else 1)
