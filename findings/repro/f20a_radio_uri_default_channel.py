"""F-20a (C20): a radio URI without a channel ('radio://0') raises ValueError instead of
selecting the default channel 2, 2M, E7E7E7E7E7.  Exit 1 = defect present."""
import sys
from cflib.crtp.radiodriver import RadioDriver
from cflib.drivers.crazyradio import Crazyradio
bad = 0
for uri in ('radio://0', 'radio://0/'):
    try:
        got = RadioDriver.parse_uri(uri)
        ok = got == (0, 2, Crazyradio.DR_2MPS, [0xe7] * 5, None)
        print(uri, '->', got, 'ok' if ok else 'WRONG')
        bad |= not ok
    except Exception as e:
        print(uri, '-> raised', type(e).__name__, e)
        bad = 1
sys.exit(1 if bad else 0)
