"""F-06a (C06): a duplicated final write acknowledgement raises IndexError inside
Memory._handle_chan_write while _write_requests_lock is held; the next write() blocks
forever.  Exit 1 = defect present."""
import struct
import sys
import threading
from cflib.crazyflie import Crazyflie
from cflib.crtp.crtpstack import CRTPPacket, CRTPPort


class Mem:
    id = 3


class Link:
    needs_resending = False

    def send_packet(self, pk):
        pass

    def receive_packet(self, t):
        return None

    def close(self):
        pass


cf = Crazyflie(rw_cache=None)
cf.link = Link()
m = Mem()
cf.mem.write(m, 0, bytes(range(10)))


def ack(addr):
    pk = CRTPPacket()
    pk.set_header(CRTPPort.MEM, 2)
    pk.data = struct.pack('<BIB', m.id, addr, 0)
    return pk


cf.mem._new_packet_cb(ack(0))          # completes the request
try:
    cf.mem._new_packet_cb(ack(0))      # duplicate of the final ack
    print('duplicate ack ignored')
except IndexError as e:
    print('duplicate ack raised IndexError:', e)
done = threading.Event()
t = threading.Thread(target=lambda: (cf.mem.write(m, 0, b'ab'), done.set()), daemon=True)
t.start()
ok = done.wait(1.0)
print('next write returned' if ok else 'next write BLOCKED (lock leaked)')
sys.exit(0 if ok else 1)
