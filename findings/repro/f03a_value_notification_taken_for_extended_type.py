"""F-03a (C03/C04): _ExtendedTypeFetcher._new_packet_cb accepts every MISC-channel packet that carries the
variable id of the outstanding request, whatever its command byte.  A firmware "value updated" notification
(MISC_VALUE_UPDATED, id, value) for the parameter whose extended type is being fetched is taken for the
answer: the first value byte is read as the extended type, so a value of 1 marks a non-persistent parameter
persistent, and the request is considered answered.
Exit 1 = defect present."""
import struct
import sys
from cflib.crazyflie import Crazyflie
from cflib.crazyflie.param import MISC_VALUE_UPDATED, ParamTocElement, _ExtendedTypeFetcher
from cflib.crazyflie.toc import Toc
from cflib.crtp.crtpstack import CRTPPacket, CRTPPort

cf = Crazyflie(rw_cache=None)
toc = Toc()
e = ParamTocElement()
e.ident, e.group, e.name, e.ctype, e.pytype, e.access = 7, 'g', 'a', 'uint8_t', '<B', 0
e.extended = True
toc.add_element(e)
f = _ExtendedTypeFetcher(cf, toc)      # thread not started: the request is "in flight" by construction
done = []
f.set_callback(lambda: done.append(1))
f._count = 1
f._req_param = 7
f._lock.acquire()
pk = CRTPPacket()
pk.set_header(CRTPPort.PARAM, 3)
pk.data = struct.pack('<BHB', MISC_VALUE_UPDATED, 7, 1)     # g.a changed on board, new value 1
f._new_packet_cb(pk)
print('persistent after a value notification:', e.is_persistent(), ' request considered answered:', bool(done))
sys.exit(1 if (e.is_persistent() or done) else 0)
