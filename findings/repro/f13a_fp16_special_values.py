"""F-13a (C13): fp16_to_float returns the integer float32 bit pattern (not the float) for
signed zeros, infinities and NaN.  Exit 1 = defect present."""
import math
import sys
from cflib.utils.encoding import fp16_to_float
bad = []
for bits, want in ((0x0000, 0.0), (0x8000, -0.0), (0x7C00, math.inf), (0xFC00, -math.inf)):
    got = fp16_to_float(bits)
    ok = isinstance(got, float) and got == want and math.copysign(1, got) == math.copysign(1, want)
    print('0x%04X -> %r (%s)' % (bits, got, 'ok' if ok else 'WRONG, expected %r' % want))
    if not ok:
        bad.append(bits)
got = fp16_to_float(0x7E00)
print('0x7E00 -> %r' % got)
if not (isinstance(got, float) and math.isnan(got)):
    bad.append(0x7E00)
sys.exit(1 if bad else 0)
