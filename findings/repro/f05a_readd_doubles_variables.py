"""F-05a (C05): add_config resolves default-typed variables into `variables` without
draining `default_fetch_as`; adding the same configuration again (after a reconnect)
doubles them.  Exit 1 = defect present."""
import sys
from cflib.crazyflie import Crazyflie
from cflib.crazyflie.log import LogConfig, LogTocElement
from cflib.crazyflie.toc import Toc
from _stub import StubLink

cf = Crazyflie(rw_cache=None)
cf.link = StubLink(needs_resending=False)
cf.log.toc = Toc()
e = LogTocElement()
e.ident, e.group, e.name, e.ctype, e.pytype, e.access = 3, 'pm', 'vbat', 'float', '<f', 0
cf.log.toc.add_element(e)
lc = LogConfig('bat', 100)
lc.add_variable('pm.vbat')
cf.log.add_config(lc)
n1 = [v.name for v in lc.variables]
cf.log.add_config(lc)            # re-add after a reconnect
n2 = [v.name for v in lc.variables]
print('after first add :', n1)
print('after second add:', n2)
sys.exit(0 if n1 == n2 else 1)
