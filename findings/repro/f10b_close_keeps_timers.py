"""F-10b (C10): close_link forgets the pending patterns without cancelling their timers.
Exit 1 = defect present."""
import sys
from cflib.crazyflie import Crazyflie
from _stub import StubLink, packet

cf = Crazyflie(rw_cache=None)
cf.link = StubLink()
cf.send_packet(packet(2, 1, (7,)), expected_reply=(7,), timeout=30)
timers = list(cf._answer_patterns.values())
cf.close_link()
alive = [t for t in timers if t.is_alive() and not t.finished.is_set()]
for t in timers:
    t.cancel()
print('timers still armed after close_link: %d' % len(alive))
sys.exit(1 if alive else 0)
