"""F-02d (C02): a link error reported from inside the latency ping thread (its own send fails)
makes Latency.stop() join the current thread: RuntimeError, the remaining disconnected callbacks
and connection_lost are skipped and the state never becomes DISCONNECTED.  Exit 1 = defect present."""
import sys
import time
from cflib.crazyflie import Crazyflie, State
from _stub import StubLink


class FailingLink(StubLink):
    def __init__(self, cf):
        StubLink.__init__(self, needs_resending=False)
        self.cf = cf
        self.fail = False

    def send_packet(self, pk):
        if self.fail:
            self.fail = False
            self.cf._link_error_cb('queue full')       # what RadioDriver.send_packet does on queue.Full
        StubLink.send_packet(self, pk)


cf = Crazyflie(rw_cache=None)
link = FailingLink(cf)
cf.link = link
cf.state = State.SETUP_FINISHED
seen = []
cf.connection_lost.add_callback(lambda uri, msg: seen.append('connection_lost'))
cf.link_statistics.start()                 # what `connected` triggers
time.sleep(0.25)
link.fail = True                           # the next ping hits the failure
time.sleep(0.6)
cf.link_statistics.latency._stop_event.set()
print('state:', cf.state, 'callbacks:', seen)
ok = cf.state == State.DISCONNECTED and seen == ['connection_lost']
sys.exit(0 if ok else 1)
