"""F-02c (C02): an application thread holds Crazyflie._send_lock while the driver reports an
error synchronously from send_packet (RadioDriver does on queue.Full); the error path joins the
latency ping thread, which is blocked on the same lock: deadlock.  Exit 1 = defect present."""
import sys
import threading
import time
from cflib.crazyflie import Crazyflie, State
from _stub import StubLink, packet


class SlowFailingLink(StubLink):
    def __init__(self, cf):
        StubLink.__init__(self, needs_resending=False)
        self.cf = cf
        self.arm = False

    def send_packet(self, pk):
        if self.arm and threading.current_thread().name == 'app':
            self.arm = False
            time.sleep(0.4)                              # out queue full for a while: ping thread queues up on the lock
            self.cf._link_error_cb('Could not send packet to copter')
            return
        StubLink.send_packet(self, pk)


cf = Crazyflie(rw_cache=None)
link = SlowFailingLink(cf)
cf.link = link
cf.state = State.SETUP_FINISHED
cf.link_statistics.start()
time.sleep(0.2)
link.arm = True
done = threading.Event()
t = threading.Thread(target=lambda: (cf.send_packet(packet(2, 1, (1,))), done.set()), name='app', daemon=True)
t.start()
ok = done.wait(4.0)
cf.link_statistics.latency._stop_event.set()
print('application send returned' if ok else 'DEADLOCK: app thread joins the ping thread while holding the send lock')
sys.exit(0 if ok else 1)
